"""C16 — parsing untrusted text succeeds or fails with a declared error, and terminates."""
import math
import random
import re
import time

from harness import common, core, dense, gens, schemes, text, vers

CHARS = "0123456789.abzAvVxX-_+~^:!*<>=|/,;()[]{} \t@"
NONASCII = ["１.２", "1.0²", "vers:npm/１", ">=١", "1.0é", "α", "１", "vers:nрm/1.0", "≥1.0", "1.0–2.0"]


def declared_classes():
    vc, vr, vs = vers.impl()
    from univers import gem, maven, nuget
    from univers.conan import errors as cerr
    return (ValueError, vr.InvalidVersionRange, gem.InvalidRequirementError, gem.InvalidVersionError,
            maven.VersionRangeParseError, maven.RestrictionParseError, nuget.InvalidNuGetVersion, cerr.ConanException)


TOKENS = ["*", "||", ",", "x", "X", "-", "+", "~", "^", "<", ">", "=", "!=", "<>", "===", "~=", "~>", "[", "]", "(", ")", "all", "none", ";", "|"]


def mutate(r, s):
    if r.random() < 0.3:
        # token level: a special token is inserted between, or takes the place of, the blank/comma separated pieces
        import re as _re
        parts = _re.split(r"(\s+|,)", s)
        i = r.randrange(len(parts) + 1)
        if r.random() < 0.5 and parts:
            parts[r.randrange(len(parts))] = r.choice(TOKENS)
        else:
            parts.insert(i, r.choice([" ", ""]) + r.choice(TOKENS) + r.choice([" ", ""]))
        s = "".join(parts)
    s = list(s)
    for _ in range(r.randint(0, 3)):
        k = r.randrange(7)
        if k == 0 and s:
            del s[r.randrange(len(s))]
        elif k == 1 and s:
            i = r.randrange(len(s))
            s.insert(i, s[i])
        elif k == 2 and len(s) > 1:
            i = r.randrange(len(s) - 1)
            s[i], s[i + 1] = s[i + 1], s[i]
        elif k == 3:
            s.insert(r.randrange(len(s) + 1), r.choice(CHARS))
        elif k == 4 and s:
            s[r.randrange(len(s))] = r.choice("*xX<>=~^|,-[]() ")
        elif k == 5:
            i = r.randrange(len(s) + 1)
            s = s[:i]
        else:
            s = s + list(r.choice(["||", " - ", ".x", ".*", "+", ",", "|", " ", "-", "^", "~"]))
    return "".join(s)


NATIVE_SEEDS = {
    "NpmVersionRange": ["^1.2.3", "~1.2", "1.2.x", "1.0.0 - 2.0.0", ">=1.0.0 <2.0.0 || >=3.0.0", "*", "<=1.2.3", "=1.0.0", "1.x", "^0.0.3", "~0", ">= 1.0 < 2"],
    "ConanVersionRange": [">=1.0 <2.0", "~1.2", "^1.2.3", "^0.0.3", "1.0 || 2.0", ">1", "<=1.2-", "*", "~1", ">=1.0, include_prerelease=True"],
    "GemVersionRange": ["~> 1.2.3", ">= 1.0, < 2.0", "!= 1.5", "= 1.0", "~>1.0.a", ">1", "1.0"],
    "DebianVersionRange": [">= 1.0", "(<< 2.3)", "= 1:1.0-1", "<= 2.0~rc1", ">> 1.0", "< 1.0"],
    "RpmVersionRange": [">= 1.0", "< 2.3-1", "= 1:1.0-1", "<> 1.0", "!= 2.0", "== 1"],
    "PypiVersionRange": [">=1.0,<2.0", "==1.0", "!=1.5", "<=2.0rc1", ">1", "~=1.0", "==1.*", "===1.0", ">=1.0;python_version<'3'"],
    "MavenVersionRange": ["[1.0,2.0)", "(,1.0]", "[1.0]", "[1.0,)", "(1.0,2.0),(3.0,4.0]", "1.0", "[1.0,2.0),[2.0,3.0]"],
    "NugetVersionRange": ["[1.0,2.0)", "(,1.0]", "[1.0]", "[1.0,)", "1.0", "(1.0,)"],
    "NginxVersionRange": ["1.5.10", "0.7.52-0.8.39", "1.1.4-1.2.8, 1.3.9-1.4.0", "0.8.40+, 0.7.66+", "all", "none", "1.5.0+"],
    "OpensslVersionRange": ["1.0.1a, 1.0.1b", "3.0.0", "0.9.8za,1.1.1"],
}


def run(ctx):
    proofs = core.check_props_file(ctx)
    ctx.say(f"proofs: {proofs['discharged']}/{proofs['obligations']} discharged" + ("" if proofs["ok"] else " -- NOT OK: " + str(proofs.get("error"))[-600:]))
    vc, vr, vs = vers.impl()
    r = random.Random(ctx.seed)
    known = core.load_findings("C16")
    declared = declared_classes()
    n = 300 if ctx.tier == "quick" else 8000
    evals = 0
    diffs, violations, samples, known_seen = [], [], [], []
    nontrivial = set()
    kinds = {}
    per_entry = {}

    # listed findings are replayed on their witnesses
    def call_entry(name, s):
        kind, _, rest = name.partition(":")
        if kind == "ctor":
            return getattr(vs, rest)(s)
        if kind == "from_native":
            return getattr(vr, rest).from_native(s)
        if kind == "from_string":
            return vr.VersionRange.from_string(s)
        if kind == "gitlab":
            return vr.from_gitlab_native(rest, s)
        raise KeyError(name)

    for k in known:
        if k.get("kind") != "finding":
            continue
        for w in k.get("witnesses", []):
            try:
                call_entry(k["entry"], w["input"] if "input" in w else eval(w["input_expr"]))
            except declared:
                pass
            except BaseException as e:  # noqa
                if type(e).__name__ == k.get("error") and k["text"] not in known_seen:
                    known_seen.append(k["text"])
        if k["text"] not in known_seen:
            ctx.say("note: listed finding no longer reproduces on its witness:", k["id"])

    def is_known(entry, s, e):
        for k in known:
            if k.get("kind") == "finding" and k["text"] in known_seen and k.get("entry") == entry and k.get("error") == type(e).__name__ \
                    and (k.get("input_regex") is None or re.search(k["input_regex"], s)):
                return True
        return False

    def attempt(entry, allowed, f, s, stream):
        nonlocal evals
        evals += 1
        t0 = time.perf_counter()
        try:
            f()
            out = "OK"
        except allowed as e:
            out = "declared:" + type(e).__name__
        except BaseException as e:  # noqa
            out = "internal:" + type(e).__name__
            if not is_known(entry, s, e):
                pe = per_entry.setdefault(entry, dict(calls=0, internal=0))
                pe["internal"] += 1
                if pe["internal"] <= 2:
                    violations.append(dict(kind="counterexample", stage="search",
                                           what=f"{entry}({s[:80]!r}{'...' if len(s) > 80 else ''}) raised the internal error {type(e).__name__}: {str(e)[:120]}",
                                           inputs=dict(entry=entry, input=s if len(s) < 400 else None, input_expr=None if len(s) < 400 else repr(s[:8]) + f"*{len(s) // 8}"), observed=type(e).__name__))
        dt = time.perf_counter() - t0
        per_entry.setdefault(entry, dict(calls=0, internal=0))["calls"] += 1
        kinds[out.split(":")[0] + ":" + stream] = kinds.get(out.split(":")[0] + ":" + stream, 0) + 1
        if len(s) >= 3:
            nontrivial.add((entry, s))
        return out, dt

    InvalidVersion = (vs.InvalidVersion,)
    # ---- constructors
    for cls in schemes.classes():
        st = schemes.streams(r, cls, ctx.tier)
        base = st.get("grammar", ["1.0"])
        pool = st["malformed"] + [mutate(r, r.choice(base)) for _ in range(n)] + NONASCII
        # characters that str.isdigit() accepts and int() refuses (superscripts, circled digits), a digit of another
        # script that int() accepts, and a non-ASCII letter, at every place of a few grammar strings
        for b in list(dict.fromkeys(["1.0.1", "1.0.1a"] + base[:4])):
            for ch in "\u00b2\u2460\u0661\u00e9":
                pool += [b + ch, ch + b] + [b[:i] + ch + b[i + 1:] for i in range(len(b))][:12]
        for s in pool:
            attempt("ctor:" + cls.__name__, InvalidVersion, lambda: cls(s), s, "malformed")
    # ---- vers text
    vers_seeds = []
    for scheme, rcls in list(vr.RANGE_CLASS_BY_SCHEMES.items()):
        g = gens.GEN_BY_CLASS.get(rcls.version_class.__name__)
        if g:
            for _ in range(3):
                vers_seeds.append(f"vers:{scheme}/" + "|".join(r.choice([">=", "<", "", "!=", "<=", ">"]) + g(r) for _ in range(r.randint(1, 3))))
    for _ in range(n * 2):
        k = r.random()
        s = mutate(r, r.choice(vers_seeds)) if k < 0.7 else "".join(r.choice(CHARS + "vers:npm/") for _ in range(r.randint(0, 12)))
        fs, fv = r.random() < 0.3, r.random() < 0.3
        attempt("from_string", (ValueError,), lambda: vr.VersionRange.from_string(s, simplify=fs, validate=fv), s, "malformed")
        c = r.choice(list(vr.RANGE_CLASS_BY_SCHEMES.values())).version_class
        attempt("constraint.from_string", (ValueError,), lambda: vc.VersionConstraint.from_string(s.split("/")[-1], c), s.split("/")[-1], "malformed")
    # ranges whose constraints are near neighbours (same base, different suffix): parsing sorts them, so the
    # comparison code of the scheme is reached with near-equal operands
    for scheme, rcls in list(vr.RANGE_CLASS_BY_SCHEMES.items()):
        try:
            near = gens.near_pool(r, rcls.version_class, 9 if ctx.tier == "quick" else 30)
        except Exception:
            near = []
        near = [v.string for v in near if "|" not in v.string]
        for b, x in gens.mined_pairs(r, rcls.version_class, 80 if ctx.tier == "quick" else 400):
            if "|" not in x:
                s = f"vers:{scheme}/{b}|{x}"
                attempt("from_string", (ValueError,), lambda: vr.VersionRange.from_string(s), s, "near")
        for _ in range(0 if len(near) < 2 else (6 if ctx.tier == "quick" else 40)):
            s = f"vers:{scheme}/" + "|".join(r.choice([">=", "<", "", "!=", "<=", ">"]) + x for x in r.sample(near, r.randint(2, min(4, len(near)))))
            attempt("from_string", (ValueError,), lambda: vr.VersionRange.from_string(s), s, "near")
    # ranges of two or three texts of one dense family (same base; every decoration also applied twice: "1:1:2.0", "2.0--",
    # accepted or not): what the class accepts is sorted by the parser, what it refuses must be refused as declared
    for scheme, rcls in list(vr.RANGE_CLASS_BY_SCHEMES.items()):
        cls = rcls.version_class
        bases = dense.PLAIN[:3] + ["1:2.3", "1:2.3-4"] + [v.string for v in gens.valid_pool(r, cls, 2 if ctx.tier == "quick" else 12)]
        for t in bases:
            for kind, fam in dense.family_texts(cls, t):
                if kind == "decorations":
                    fam = fam + [y for x in fam[1:6] for _k, f2 in dense.family_texts(cls, x) if _k == "decorations" for y in f2[1:]]
                fam = [x for x in dict.fromkeys(fam) if "|" not in x and all(ord(c) < 128 for c in x)]
                if len(fam) < 2:
                    continue
                for x in fam[1:]:                       # the base with each variation
                    s = f"vers:{scheme}/{fam[0]}|{x}"
                    attempt("from_string", (ValueError,), lambda: vr.VersionRange.from_string(s), s, "dense")
                for _ in range(2 if ctx.tier == "quick" else 30):
                    s = f"vers:{scheme}/" + "|".join(r.choice(["", "", ">=", "<", "!="]) + x for x in r.sample(fam, min(len(fam), r.randint(2, 3))))
                    attempt("from_string", (ValueError,), lambda: vr.VersionRange.from_string(s), s, "dense")
    for s in ["", " ", "vers:", "vers:npm", "vers:npm/", "vers:/1", "npm/1", "vers:npm/|", "vers:npm/*|*", "vers:npm/>=", "vers:npm/1|1"] + NONASCII:
        attempt("from_string", (ValueError,), lambda: vr.VersionRange.from_string(s), s, "edge")
    # ---- native converters
    for cname, seeds in NATIVE_SEEDS.items():
        rcls = getattr(vr, cname)
        for _ in range(n):
            k = r.random()
            s = mutate(r, r.choice(seeds)) if k < 0.8 else "".join(r.choice(CHARS) for _ in range(r.randint(0, 10)))
            attempt("from_native:" + cname, declared, lambda: rcls.from_native(s), s, "malformed")
        for s in seeds + ["", " ", "*", "||", ","] + NONASCII[:4]:
            attempt("from_native:" + cname, declared, lambda: rcls.from_native(s), s, "valid+edge")
    # ---- advisory converters
    adv_seeds = ["*", "* <1.0", "*, >=4.0.0, <4.0.10", ">=1.0 *", "[1.4.5,*", ">= 1.0, < 2.0", "= 1.0", ">=4.0.0 <4.0.10", "[3.0.0,3.1.25)", "(,9.21]", ">=1.0||<0.5", "<= 2.0", "!= 1.5", "==1.0"]
    for _ in range(n):
        s = mutate(r, r.choice(adv_seeds)) if r.random() < 0.8 else "".join(r.choice(CHARS) for _ in range(r.randint(0, 10)))
        scheme = r.choice(list(vr.RANGE_CLASS_BY_SCHEMES))
        attempt("github", declared, lambda: vr.build_range_from_github_advisory_constraint(scheme, s), s, "malformed")
        attempt("snyk", declared, lambda: vr.build_range_from_snyk_advisory_string(scheme, s), s, "malformed")
        g = r.choice(list(vr.PURL_TYPE_BY_GITLAB_SCHEME))
        attempt("gitlab:" + g, declared, lambda: vr.from_gitlab_native(g, s), s, "malformed")
    # ---- model correspondence of the error kind on the generic scheme (vers text)
    text.ensure_generic_scheme()
    reqs, wants = [], []
    for _ in range(n * 2):
        body = mutate(r, r.choice(["1.0|>=2", "*", ">=1|<2|!=1.5", "=a", "<=b|c"])) if r.random() < 0.7 else "".join(r.choice(CHARS) for _ in range(r.randint(0, 10)))
        if any(ord(c) > 126 for c in body):
            continue
        fs, fv = r.random() < 0.3, r.random() < 0.3
        try:
            w = "OK " + text.gclist_text(vr.VersionRange.from_string("vers:zzgen/" + body, simplify=fs, validate=fv).constraints)
        except Exception as e:  # noqa
            w = "ERR " + vers.err_name(e)
        reqs.append(f"gparse {text.hx(body)} {int(fs)} {int(fv)}")
        wants.append((w, body))
    got = core.run_driver(ctx, reqs)
    evals += len(reqs)
    for q, g_, (w, b) in zip(reqs, got, wants):
        if g_ != w:
            diffs.append(dict(request="gparse", text=b, model=g_, impl=w))
    # ---- running time on long repetitive inputs: fitted exponent of time against length
    timing = {}
    families = [("1-", "maven-like dashes"), ("1a", "digit/letter transitions"), ("-r", "dash r"), (".a", "dot letter"), ("1.", "dotted"), ("-a", "dash letter"), ("~", "tildes"), ("|1", "pipes")]
    sizes = [500, 1000, 2000, 4000] if ctx.tier == "quick" else [1000, 2000, 4000, 8000, 16000]
    entries = [("ctor:" + c.__name__, InvalidVersion, (lambda c: (lambda s: c(s)))(c)) for c in schemes.classes()] + \
              [("from_string", (ValueError,), lambda s: vr.VersionRange.from_string("vers:npm/" + s)),
               ("from_native:GemVersionRange", declared, lambda s: vr.GemVersionRange.from_native(s)),
               ("from_native:NpmVersionRange", declared, lambda s: vr.NpmVersionRange.from_native(s)),
               ("from_native:MavenVersionRange", declared, lambda s: vr.MavenVersionRange.from_native(s)),
               ("from_native:PypiVersionRange", declared, lambda s: vr.PypiVersionRange.from_native(s))]
    import multiprocessing as mp
    LIMIT = 5.0 if ctx.tier == "quick" else 10.0

    def child(conn, f, allowed, start):
        # runs in a forked process: a regex that backtracks exponentially cannot be interrupted in-process
        for fi in range(start, len(families)):
            unit = families[fi][0]
            for L in sizes:
                s = unit * (L // len(unit)) + "!"
                t0 = time.perf_counter()
                try:
                    f(s)
                    out = "OK"
                except allowed:
                    out = "declared"
                except BaseException as e:  # noqa
                    out = "internal:" + type(e).__name__
                conn.send((fi, L, time.perf_counter() - t0, out))
        conn.send(None)
        conn.close()

    mpctx = mp.get_context("fork")
    for entry, allowed, f in entries:
        worst = 0.0
        results = {}
        start = 0
        while start < len(families):
            parent, chld = mpctx.Pipe(duplex=False)
            p = mpctx.Process(target=child, args=(chld, f, allowed, start), daemon=True)
            p.start()
            chld.close()
            last = (start, 0)
            done = False
            while True:
                if parent.poll(LIMIT + 2.0):
                    try:
                        msg = parent.recv()
                    except EOFError:
                        done = True
                        break
                    if msg is None:
                        done = True
                        break
                    fi, L, dt, out = msg
                    evals += 1
                    results.setdefault(fi, []).append((L, max(dt, 1e-6), out))
                    last = (fi, L)
                    if out.startswith("internal"):
                        e = type(out.split(":")[1], (Exception,), {})()
                        if not is_known(entry, families[fi][0] * 200, e):
                            violations.append(dict(kind="counterexample", stage="search",
                                                   what=f"{entry} on {families[fi][0]!r}*{L // len(families[fi][0])}+'!' raised the internal error {out.split(':')[1]}",
                                                   inputs=dict(entry=entry, input_expr=f"{families[fi][0]!r}*{L // len(families[fi][0])}+'!'"), observed=out))
                else:
                    # no answer in time: the call after `last` hangs
                    fi = last[0] if (last[1] != sizes[-1]) else last[0] + 1
                    fi = min(fi, len(families) - 1)
                    nextL = sizes[0] if last[1] in (0, sizes[-1]) else sizes[sizes.index(last[1]) + 1]
                    violations.append(dict(kind="counterexample", stage="search",
                                           what=f"{entry} on {families[fi][0]!r}*{nextL // len(families[fi][0])}+'!' ({families[fi][1]}) did not finish within {LIMIT + 2.0:.0f}s",
                                           inputs=dict(entry=entry, input_expr=f"{families[fi][0]!r}*{nextL // len(families[fi][0])}+'!'"), observed="timeout"))
                    worst = max(worst, 99.0)
                    p.terminate()
                    start = fi + 1
                    break
            p.join(1)
            if p.is_alive():
                p.terminate()
            if done:
                break
        for fi, pts in results.items():
            pts = [(a_, b_) for a_, b_, _ in pts]
            if len(pts) >= 3 and pts[-1][1] > 0.02:
                xs = [math.log(a_) for a_, _ in pts]
                ys = [math.log(b_) for _, b_ in pts]
                mx, my = sum(xs) / len(xs), sum(ys) / len(ys)
                slope = sum((x - mx) * (y - my) for x, y in zip(xs, ys)) / sum((x - mx) ** 2 for x in xs)
                worst = max(worst, slope)
                if slope > 3.2 or pts[-1][1] > LIMIT:
                    violations.append(dict(kind="counterexample", stage="search",
                                           what=f"{entry} on {families[fi][0]!r}*n+'!' ({families[fi][1]}): running time grows like n^{slope:.1f} ({pts[-1][1]:.2f}s at length {pts[-1][0]})",
                                           inputs=dict(entry=entry, input_expr=f"{families[fi][0]!r} * (n // {len(families[fi][0])}) + '!'", sizes=[a_ for a_, _ in pts]), observed=[round(b_, 4) for _, b_ in pts]))
        timing[entry] = round(worst, 2)
    for e_, d in list(per_entry.items())[:6]:
        samples.append(dict(entry=e_, calls=d["calls"], internal_errors=d["internal"]))
    if not violations and (diffs or not proofs["ok"]):
        what = ("theorems of Props/C16.v no longer check: " + str(proofs.get("error"))[-400:]) if not proofs["ok"] else \
            ("model and implementation differ: " + str(diffs[0]))
        violations.append(dict(kind="no-failing-input-found", stage="proof" if not proofs["ok"] else "correspondence",
                               theorem_or_stream="Props/C16.v" if not proofs["ok"] else "from_string error kinds vs Vers/VersText.v", what=what, diffs=diffs[:10]))
    cov = dict(evaluations=evals, distinct_nontrivial=len(nontrivial),
               rule="every public parsing entry point (all version constructors, VersionRange.from_string with flags, VersionConstraint.from_string, the ten from_native converters, the GitHub, "
                    "Snyk and GitLab converters) on random text over the characters versions and ranges are made of, structure-aware mutations of valid inputs, empty / whitespace / non-ASCII "
                    "strings and long repetitive inputs; each outcome classified as value / declared error / internal error; running time fitted against length on 8 repetitive families; the "
                    "error kind of from_string compared with the model; non-trivial = distinct (entry point, input of length >= 3)",
               samples=samples, outcome_histogram=kinds, per_entry={k: v for k, v in per_entry.items()}, fitted_time_exponent=timing, model_impl_differences=len(diffs))
    return core.finish(ctx, proofs, cov, violations, known_seen,
                       assumptions=["PARTIAL: wall-clock time, regex backtracking and the recursion limit are runtime facts that are measured, not proved; theorems cover from_string and the modelled constructors"])
