"""C06 — converting a native range to vers preserves exactly the set of matching versions."""
import itertools
import random

from harness import common, core, gens, schemes, text, vers

NUMS = [0, 1, 2, 10]
LADDER = sorted(itertools.product(NUMS, repeat=3))          # 64 release triples, position = index
POS = {t: i for i, t in enumerate(LADDER)}


def vtext(t):
    return ".".join(str(x) for x in t)


# ---------------------------------------------------------------- expressions of the flat fragment over positions
def random_expr(r, max_alts=3, exclusions=True, open_ends=True, exact=True, intervals=True):
    """alternatives in ascending order with a gap of at least one position between them"""
    k = r.randint(1, max_alts)
    alts, pos = [], r.randint(1, 6)
    for i in range(k):
        kind = r.choice((["E"] if exact else []) + (["I", "I"] if intervals else []))
        if kind == "E":
            alts.append(("E", pos))
            pos += r.randint(2, 6)
        else:
            lo = (pos, r.random() < 0.5)
            width = r.randint(2, 9)
            hi = (pos + width, r.random() < 0.5)
            ex = []
            if exclusions and width > 2 and r.random() < 0.5:
                ex = sorted(r.sample(range(pos + 1, pos + width), r.randint(1, min(2, width - 1))))
            if open_ends and i == 0 and r.random() < 0.25:
                lo = None
            if open_ends and i == k - 1 and lo is not None and r.random() < 0.25:
                hi = None
            alts.append(("I", lo, hi, ex))
            pos += width + r.randint(2, 6)
        if pos >= len(LADDER) - 2:
            break
    return alts


def enc(alts):
    out = []
    for a in alts:
        if a[0] == "E":
            out.append(f"E:{a[1]}")
        else:
            _, lo, hi, ex = a
            b = lambda x: "-" if x is None else f"{x[0]}{'i' if x[1] else 'x'}"
            out.append(f"I:{b(lo)};{b(hi)};{'.'.join(map(str, ex)) if ex else '-'}")
    return "|".join(out) if out else "-"


OPENSSL_LADDER = ([f"0.9.8{c}" for c in ["", "a", "b", "y", "z", "za", "zh"]] + [f"1.0.0{c}" for c in ["-beta1", "-beta5", "", "a", "t"]]
                  + [f"1.0.1{c}" for c in ["-beta1", "", "a", "f", "g", "u"]] + [f"1.0.2{c}" for c in ["-beta1", "", "a", "k", "u", "zd"]]
                  + [f"1.1.0{c}" for c in ["-pre1", "-pre6", "", "a", "l"]] + [f"1.1.1{c}" for c in ["-pre1", "-pre9", "", "a", "k", "n", "w"]]
                  + ["3.0.0", "3.0.1", "3.0.2", "3.0.7", "3.0.10", "3.1.0", "3.1.1", "3.1.4", "3.2.0", "3.2.1", "3.3.0", "3.3.1", "3.3.2", "3.4.0", "3.4.1", "3.5.0",
                     "4.0.0", "4.0.1", "4.1.0", "4.1.1", "5.0.0", "5.0.1", "5.1.0", "6.0.0", "6.0.1", "6.1.0", "7.0.0", "7.0.1"])
CUR = {"ladder": None}


def V(p):
    lad = CUR["ladder"]
    return lad[p] if lad else vtext(LADDER[p])


# ---------------------------------------------------------------- renderers: one per native notation
def sp(r):
    return r.choice(["", " "])


def render_maven(r, alts):
    out = []
    for a in alts:
        if a[0] == "E":
            out.append(f"[{V(a[1])}]")
        else:
            _, lo, hi, _ = a
            out.append(("[" if lo and lo[1] else "(") + (V(lo[0]) if lo else "") + "," + sp(r) + (V(hi[0]) if hi else "") + ("]" if hi and hi[1] else ")"))
    return ",".join(out)


def clause(r, lo, hi, ex, ge=">=", gt=">", le="<=", lt="<", ne="!=", space=None):
    s = sp(r) if space is None else space
    parts = []
    if lo:
        parts.append((ge if lo[1] else gt) + s + V(lo[0]))
    for x in ex:
        parts.append(ne + s + V(x))
    if hi:
        parts.append((le if hi[1] else lt) + s + V(hi[0]))
    return parts


def render_npm(r, alts):
    out = []
    for a in alts:
        if a[0] == "E":
            out.append(r.choice(["", "=", "v", "=v"]) + V(a[1]))
        else:
            _, lo, hi, _ = a
            if lo and hi and lo[1] and hi[1] and r.random() < 0.3:
                out.append(f"{V(lo[0])} - {V(hi[0])}")
            else:
                parts = clause(r, lo, hi, [])
                r.random() < 0.3 and parts.reverse()
                out.append(" ".join(parts))
    return r.choice([" || ", "||", " ||"]).join(out)


def render_conan(r, alts):
    out = []
    for a in alts:
        if a[0] == "E":
            out.append(r.choice(["", "="]) + V(a[1]))
        else:
            _, lo, hi, _ = a
            out.append(" ".join(clause(r, lo, hi, [], space="")))
    return r.choice([" || ", "||"]).join(out)


def render_and(r, alts, eq="=", sep=", ", **kw):
    a = alts[0]
    if a[0] == "E":
        return eq + sp(r) + V(a[1])
    _, lo, hi, ex = a
    parts = clause(r, lo, hi, ex, **kw)
    r.shuffle(parts)
    return sep.join(parts)


def render_list(r, alts, eq="=", **kw):
    a = alts[0]
    if a[0] == "E":
        return [eq + sp(r) + V(a[1])]
    _, lo, hi, ex = a
    parts = clause(r, lo, hi, ex, **kw)
    r.shuffle(parts)
    return parts


def render_nginx(r, alts):
    out = []
    for a in alts:
        out.append(V(a[1]) if a[0] == "E" else f"{V(a[1][0])}-{V(a[2][0])}")
    return r.choice([", ", ","]).join(out)


def render_openssl(r, alts):
    return r.choice([", ", ","]).join(V(a[1]) for a in alts)


def notations(vr):
    """name, range class, expression options, renderer, how to call"""
    return [
        ("maven", vr.MavenVersionRange, dict(exclusions=False), render_maven, "native"),
        ("nuget", vr.NugetVersionRange, dict(exclusions=False), render_maven, "native"),
        ("npm", vr.NpmVersionRange, dict(exclusions=False), render_npm, "native"),
        ("conan", vr.ConanVersionRange, dict(exclusions=False), render_conan, "native"),
        ("gem", vr.GemVersionRange, dict(max_alts=1), lambda r, a: render_and(r, a), "native"),
        ("pypi", vr.PypiVersionRange, dict(max_alts=1), lambda r, a: render_and(r, a, eq="==", sep=","), "native"),
        ("deb", vr.DebianVersionRange, dict(max_alts=1, exclusions=False), lambda r, a: render_list(r, a, gt=">>", lt="<<"), "natives"),
        ("rpm", vr.RpmVersionRange, dict(max_alts=1), lambda r, a: render_list(r, a, ne=r.choice(["!=", "<>"]), eq=r.choice(["=", "=="])), "natives"),
        ("nginx", vr.NginxVersionRange, dict(exclusions=False, open_ends=False), render_nginx, "native"),
        ("openssl", vr.OpensslVersionRange, dict(intervals=False), render_openssl, "native"),
    ]


def closed_only(alts):
    return [a if a[0] == "E" else ("I", (a[1][0], True), (a[2][0], True), []) for a in alts]


# ---------------------------------------------------------------- shorthands over a fully specified release version
def shorthand_cases(r, n):
    """(notation, text, kind, (a,b,c)) — kinds name the native rule evaluated by the extracted Coq function"""
    out = []
    # the corner shapes first (a zero in each position: the written precision matters for "~>" and "~"; every zero/non-zero
    # pattern of the three numbers, all-zero included: the caret rule branches on each), then random ones
    fixed = [(1, 2, 0), (2, 0, 0), (0, 3, 0), (0, 0, 3), (7, 0, 8), (1, 9, 1), (0, 0, 0), (0, 0, 1), (0, 1, 0), (1, 0, 0), (0, 1, 1), (1, 0, 1)]
    for i in range(len(fixed) + n):
        a, b, c = fixed[i] if i < len(fixed) else (r.choice([0, 0, 1, 2, 7]), r.choice([0, 0, 1, 2, 3, 4, 9]), r.choice([0, 1, 3, 8]))
        t = f"{a}.{b}.{c}"
        out += [("npm", "^" + t, "caret", (a, b, c)), ("npm", "~" + t, "tilde", (a, b, c)), ("npm", f"{a}.{b}.x", "tilde", (a, b, 0)),
                ("npm", f"{a}.x", "majorx", (a, 0, 0)), ("npm", f"~{a}.{b}", "tilde", (a, b, 0)), ("npm", f"^{a}.{b}", "caret", (a, b, 0)) if (a or b) else ("npm", "^" + t, "caret", (a, b, c)),
                ("conan", "^" + t, "caret", (a, b, c)), ("conan", "~" + t, "tilde", (a, b, c)), ("conan", f"~{a}.{b}", "tilde", (a, b, 0)), ("conan", f"~{a}", "majorx", (a, 0, 0)),
                ("gem", "~> " + t, "tilde", (a, b, c)), ("gem", f"~> {a}.{b}", "majorx", (a, b, 0)), ("gem", "~>" + t, "tilde", (a, b, c)),
                ("nginx", t + "+", "nginxplus", (a, b, c))]
    return out


def probes_around(t):
    a, b, c = t
    s = set()
    for x in {a - 1, a, a + 1}:
        for y in {0, b - 1, b, b + 1, b + 2}:
            for z in {0, c - 1, c, c + 1, c + 7}:
                if min(x, y, z) >= 0:
                    s.add((x, y, z))
    return sorted(s)


def run(ctx):
    proofs = core.check_props_file(ctx)
    ctx.say(f"proofs: {proofs['discharged']}/{proofs['obligations']} discharged" + ("" if proofs["ok"] else " -- NOT OK: " + str(proofs.get("error"))[-600:]))
    vc, vr, vs = vers.impl()
    r = random.Random(ctx.seed)
    known = core.load_findings("C06")
    n = 60 if ctx.tier == "quick" else 1500
    evals = 0
    violations, samples, known_seen, diffs = [], [], [], []
    nontrivial = set()
    per = {}
    byname = {x[0]: x for x in notations(vr)}

    def convert(rcls, how, native):
        return rcls.from_natives(native) if how == "natives" else rcls.from_native(native)

    def viol(what, **kw):
        if len(violations) < 6:
            violations.append(dict(kind="counterexample", stage="search", what=what, **kw))

    # ---- listed findings first, deterministically
    for k in known:
        if k.get("kind") != "finding":
            continue
        for w in k.get("witnesses", []):
            name, rcls, _, _, how = byname[w["notation"]]
            try:
                rng = convert(rcls, how, w["native"])
                if "probe" in w:
                    got = rcls.version_class(w["probe"]) in rng
                else:
                    try:
                        got = "valid" if vc.VersionConstraint.validate(list(rng.constraints)) else "invalid"
                    except Exception:
                        got = "invalid"
            except Exception as e:  # noqa
                got = "raised " + type(e).__name__
            if got != w["expected"] and k["text"] not in known_seen:
                known_seen.append(k["text"])

    def known_native(name, native):
        for k in known:
            if k.get("kind") == "finding" and name in k.get("notations", []) and k.get("native_predicate") == "bare_version":
                s = native if isinstance(native, str) else ""
                if s and s[0] not in "[(":
                    return True
        return False

    # ---- interval / exact expressions
    for name, rcls, opts, render, how in notations(vr):
        st = dict(expressions=0, probes=0, disagreements=0, ill_formed=0, conversion_differs=0)
        CUR["ladder"] = OPENSSL_LADDER[:len(LADDER)] if name == "openssl" else None
        if CUR["ladder"]:
            lv = [rcls.version_class(x) for x in CUR["ladder"]]
            assert len(lv) == len(LADDER) and all(a < b for a, b in zip(lv, lv[1:])), "openssl ladder is not strictly increasing"
        for i in range(n):
            alts = random_expr(r, **({"max_alts": 3} | opts))
            if name == "nginx":
                alts = closed_only(alts)
            if not alts:
                continue
            native = render(r, alts)
            e = enc(alts)
            st["expressions"] += 1
            try:
                rng = convert(rcls, how, native)
            except Exception as ex:  # noqa
                viol(f"{name}: from_native({native!r}) raised {type(ex).__name__}: {str(ex)[:100]}", inputs=dict(notation=name, native=native, expression=e))
                continue
            nontrivial.add((name, str(native)))
            # well-formed?
            ok = vers.res_bool(lambda: vc.VersionConstraint.validate(list(rng.constraints)))
            evals += 1
            if ok != "OK true":
                st["ill_formed"] += 1
                viol(f"{name}: from_native({native!r}) = {str(rng)!r} is not well-formed ({ok})", inputs=dict(notation=name, native=native, expression=e), observed=str(rng))
            # membership at every ladder position against the native rule
            reqs = [f"nmatch {e} {p}" for p in range(len(LADDER))]
            want = core.run_driver(ctx, reqs)
            bad = None
            for p, w in enumerate(want):
                evals += 1
                st["probes"] += 1
                try:
                    got = "OK true" if (rcls.version_class(V(p)) in rng) else "OK false"
                except Exception as ex:  # noqa
                    got = "ERR " + type(ex).__name__
                if got != w and bad is None:
                    bad = (p, got, w)
            if bad:
                st["disagreements"] += 1
                p, got, w = bad
                viol(f"{name}: {native!r} converts to {str(rng)!r}; version {V(p)}: vers says {got}, the native rule says {w}",
                     inputs=dict(notation=name, native=native, expression=e, probe=V(p)), observed=got, expected=w)
            # the emitted constraints against the conversion model of the theorem
            model = core.run_driver(ctx, [f"nconstraints {e}"])[0]
            back = []
            for c in rng.constraints:
                if CUR["ladder"]:
                    pp = CUR["ladder"].index(str(c.version)) if str(c.version) in CUR["ladder"] else None
                else:
                    t = tuple(int(x) for x in str(c.version).split(".")) if c.version is not None and str(c.version).count(".") == 2 and str(c.version).replace(".", "").isdigit() else None
                    pp = POS.get(t)
                back.append((vers.NAME.get(c.comparator, c.comparator), pp))
            mine = sorted(f"{o}:{p}" for o, p in back)
            theirs = sorted(model[3:].split(",")) if model.startswith("OK ") and model != "OK -" else []
            evals += 1
            if mine != theirs:
                st["conversion_differs"] += 1
                if len(diffs) < 5:
                    diffs.append(dict(notation=name, native=native, expression=e, model=theirs, impl=mine))
            if len(samples) < 14 and i < 2:
                samples.append(dict(notation=name, native=native, vers=str(rng), expression=e))
        per[name] = st

    CUR["ladder"] = None
    # ---- alternatives that meet at one version (disjoint, but outside the theorem's strict separation): membership only,
    #      the ill-formed result there is the listed finding
    adj = dict(expressions=0, probes=0, disagreements=0)
    for name in ("maven", "nuget"):
        _, rcls, _, render, how = byname[name]
        for i in range(n // 2):
            a0, m, b0 = sorted(r.sample(range(2, len(LADDER) - 2), 3))
            li, ri = r.choice([(True, False), (False, True), (False, False)])
            alts = [("I", (a0, r.random() < 0.5), (m, li), []), ("I", (m, ri), (b0, r.random() < 0.5), [])]
            if r.random() < 0.3:
                alts[0] = ("I", None, (m, li), [])
            if r.random() < 0.3:
                alts[1] = ("I", (m, ri), None, [])
            native, e = render(r, alts), enc(alts)
            adj["expressions"] += 1
            try:
                rng = convert(rcls, how, native)
            except Exception as ex:  # noqa
                viol(f"{name}: from_native({native!r}) raised {type(ex).__name__}: {str(ex)[:100]}", inputs=dict(notation=name, native=native, expression=e))
                continue
            nontrivial.add((name, native))
            want = core.run_driver(ctx, [f"nmatch {e} {p}" for p in (a0 - 1, a0, a0 + 1, m - 1, m, m + 1, b0 - 1, b0, b0 + 1)])
            for p, w in zip((a0 - 1, a0, a0 + 1, m - 1, m, m + 1, b0 - 1, b0, b0 + 1), want):
                evals += 1
                adj["probes"] += 1
                try:
                    got = "OK true" if (rcls.version_class(V(p)) in rng) else "OK false"
                except Exception as ex:  # noqa
                    got = "ERR " + type(ex).__name__
                if got != w:
                    adj["disagreements"] += 1
                    viol(f"{name}: {native!r} converts to {str(rng)!r}; version {V(p)}: vers says {got}, the native rule says {w}",
                         inputs=dict(notation=name, native=native, expression=e, probe=V(p)), observed=got, expected=w)
                    break
    per["adjacent_alternatives"] = adj
    # ---- the native parsers that have a code-shaped model (bracket notation of maven and nuget, relationship strings of
    #      deb and rpm, the nginx notation, the openssl version list), each against its model on well-formed, decorated
    #      and malformed texts: the constraints handed to the range constructor, as a multiset, or the kind of error
    pm = dict(texts=0, accepted=0, rejected=0, differences=0)
    pool = ["1", "1.0", "1.5", "2", "2.0", "3", "3.1", "10", "1.0-alpha", "2.0.1", "0.9", "4.0", "a", "1.0.0.1", "1.0-SNAPSHOT", "v2", "01"]
    nq = 150 if ctx.tier == "quick" else 4000

    def observe(f):
        try:
            rng = f()
            return "OK " + (",".join(sorted("*" if c.comparator == "*" else f"{vers.NAME.get(c.comparator, c.comparator)}:{text.hx(str(c.version))}" for c in rng.constraints)) or "-")
        except vs.InvalidVersion:
            return "ERR EInvalidVersion"
        except ValueError:
            return "ERR EValue"
        except Exception as ex:  # noqa
            return "ERR " + type(ex).__name__

    def compare(stream, native, got, w):
        nonlocal evals
        evals += 1
        pm["texts"] += 1
        if w.startswith("OK "):
            w = "OK " + (",".join(sorted(w[3:].split(","))) if w != "OK -" else "-")
        pm["accepted" if got.startswith("OK") else "rejected"] += 1
        if got != w:
            pm["differences"] += 1
            if len(diffs) < 5:
                diffs.append(dict(stream=stream, native=native, model=w, impl=got))

    def mutate(s, extra):
        if r.random() < 0.3:
            i = r.randrange(len(s) + 1)
            s = s[:i] + r.choice(extra) + s[i:]
        return s

    def ascii_only(ts):
        return [t for t in dict.fromkeys(ts) if all(ord(c) < 128 for c in (t if isinstance(t, str) else "".join(t)))]

    # bracket notation
    def br_alt():
        if r.random() < 0.25:
            return "[" + r.choice(pool) + "]"
        lo, hi = r.choice(pool + [""] * 4), r.choice(pool + [""] * 4)
        return r.choice("[(") + lo + r.choice([",", ",", " , "]) + hi + r.choice("])")

    def br_text():
        k = r.random()
        if k < 0.35:
            alts = random_expr(r, max_alts=3, exclusions=False)
            return render_maven(r, alts) if alts else "[1.0]"
        s = r.choice([",", ",", " , ", ",,", ""]).join(br_alt() for _ in range(r.choice([1, 1, 2, 2, 3])))
        return r.choice(pool) if k > 0.95 else mutate(s, ["(", "[", ")", "]", ",", " ", "x", "1", "\t"])

    br_fixed = ["", "[]", "()", "(,)", "[,]", "[1,2,3]", "[1.0,1]", "[1,2)[3,4]", "[1,),[0,2]", "[ 1.0 , 2.0 ]", "[1.0\t,2.0]", "]", "[", "[1", "1]", "[1],",
                "[1],,[2]", "[2],[1]", "(,1],(,2]", "[1,2],[2,3]", "[1,2),[2,3]", "[1.0]", "(,1.0],[1.2,)", "[1.0,2.0)", "(1.0)", "[2,1]", "[1.0,1.0]"]
    texts = ascii_only(br_fixed + [br_text() for _ in range(nq)])
    for which, rname in (("maven", "MavenVersionRange"), ("nuget", "NugetVersionRange")):
        rcls = getattr(vr, rname)
        want = core.run_driver(ctx, [f"mavennative {which} {text.hx(t)}" for t in texts])
        for t, w in zip(texts, want):
            compare("bracket parser / " + which, t, observe(lambda: rcls.from_native(t)), w)

    # relationship strings
    rel_versions = ["1.0", "2.3", "1:1.1.4", "2.8.16-z", "3.5.6", "1.0~rc1", "0", "1.0-1", "2.0+dfsg", "a", "1.0.0", "v1", "5"]
    for which, rname, strip in (("deb", "DebianVersionRange", ")("), ("rpm", "RpmVersionRange", ",")):
        rcls = getattr(vr, rname)
        keys = list(rcls.vers_by_native_comparators) + ["~", "", "=>", "<<<", "!", "==="]

        def rel_item():
            s = r.choice(keys) + r.choice(["", " ", "  "]) + r.choice(rel_versions)
            if r.random() < 0.4:
                s = r.choice(list(strip) + [""]) * r.choice([1, 2]) + s + r.choice(list(strip) + [""])
            return mutate(s, [" ", "(", ")", ",", "<", ">", "=", "\t"]) if r.random() < 0.6 else s
        lists = [[rel_item() for _ in range(r.choice([1, 1, 2, 3]))] for _ in range(nq)]
        lists = [l for l in lists if all(ord(c) < 128 for c in "".join(l))]
        want = core.run_driver(ctx, [f"relations {which} " + ",".join(text.hx(x) for x in l) for l in lists])
        for l, w in zip(lists, want):
            compare("relationship strings / " + which, l, observe(lambda: rcls.from_natives(l)), w)

    # nginx and openssl
    nv = ["1.5.10", "0.7.52", "0.8.39", "1.21.0", "1.20.1", "1.4.1", "1.5.0", "0.6.18", "1.22", "1", "v1.3", "1.0.0-rc1", "1.2.3+b"]
    ov = ["1.0.1af", "3.0.1", "1.1.1nf", "0.9.8", "1.0.2K", "3.0.0-alpha1", "1.1.0-pre2", "1.0.0", "3.1"]

    def ng_clause():
        k = r.random()
        return r.choice(nv) + "-" + r.choice(nv) if k < 0.3 else r.choice(nv) + "+" if k < 0.6 else r.choice(nv)
    ng_texts = ascii_only(["all", "ALL", " a l l ", "none", "", "1.5.0+, 1.4.1+", "1.1.4-1.2.8, 1.3.9-1.4.0"] +
                          [mutate(r.choice([", ", ","]).join(ng_clause() for _ in range(r.choice([1, 1, 2, 3]))), [" ", ",", "-", "+", "x", "A", "\t", "all"]) for _ in range(nq)])
    want = core.run_driver(ctx, [f"nginxnative {text.hx(t)}" for t in ng_texts])
    for t, w in zip(ng_texts, want):
        compare("nginx notation", t, observe(lambda: vr.NginxVersionRange.from_native(t)), w)
    os_texts = ascii_only([""] + [mutate(r.choice([", ", ","]).join(r.choice(ov) for _ in range(r.choice([1, 2, 3]))), [" ", ",", "-", "+", "x", "A", "\t"]) for _ in range(nq)])
    want = core.run_driver(ctx, [f"opensslnative {text.hx(t)}" for t in os_texts])
    for t, w in zip(os_texts, want):
        compare("openssl version list", t, observe(lambda: vr.OpensslVersionRange.from_native(t)), w)
    per["native_parser_models"] = pm
    # ---- shorthands
    sh = dict(cases=0, probes=0, disagreements=0)
    for name, native, kind, (a, b, c) in shorthand_cases(r, 6 if ctx.tier == "quick" else 120):
        _, rcls, _, _, how = byname[name]
        sh["cases"] += 1
        try:
            rng = convert(rcls, "native", native)
        except Exception as ex:  # noqa
            viol(f"{name}: from_native({native!r}) raised {type(ex).__name__}: {str(ex)[:100]}", inputs=dict(notation=name, native=native))
            continue
        nontrivial.add((name, native))
        ok = vers.res_bool(lambda: vc.VersionConstraint.validate(list(rng.constraints)))
        if ok != "OK true":
            viol(f"{name}: from_native({native!r}) = {str(rng)!r} is not well-formed ({ok})", inputs=dict(notation=name, native=native), observed=str(rng))
        pts = probes_around((a, b, c))
        want = core.run_driver(ctx, [f"shorthand {kind} {a} {b} {c} {x} {y} {z}" for x, y, z in pts])
        for t, w in zip(pts, want):
            evals += 1
            sh["probes"] += 1
            try:
                got = "OK true" if (rcls.version_class(vtext(t)) in rng) else "OK false"
            except Exception as ex:  # noqa
                got = "ERR " + type(ex).__name__
            if got != w:
                sh["disagreements"] += 1
                viol(f"{name}: {native!r} converts to {str(rng)!r}; version {vtext(t)}: vers says {got}, the {kind} rule says {w}",
                     inputs=dict(notation=name, native=native, probe=vtext(t), rule=kind), observed=got, expected=w)
                break
        if len(samples) < 24 and sh["cases"] % 9 == 1:
            samples.append(dict(notation=name, native=native, vers=str(rng), rule=kind))
    per["shorthands"] = sh
    # ---- npm hyphen ranges whose second version is partial (node-semver: "1.2.3 - 2.3" is >=1.2.3 <2.4.0, "1.2.3 - 2" is
    #      >=1.2.3 <3.0.0: any version that starts with the supplied parts is accepted); evaluated against that rule
    hy = dict(cases=0, probes=0, disagreements=0)
    for (a, b, c), (x, y) in [((1, 2, 3), (2, 3)), ((1, 2, 3), (2, None)), ((0, 1, 0), (0, 4)), ((2, 0, 0), (3, None)), ((1, 0, 0), (1, 4))]:
        native = f"{a}.{b}.{c} - {x}" + ("" if y is None else f".{y}")
        hy["cases"] += 1
        try:
            rng = vr.NpmVersionRange.from_native(native)
        except Exception as ex:  # noqa
            viol(f"npm: from_native({native!r}) raised {type(ex).__name__}: {str(ex)[:100]}", inputs=dict(notation="npm", native=native))
            continue
        for t in sorted(set(probes_around((a, b, c)) + probes_around((x, 0 if y is None else y, 0)) + [(x, (y or 0) + 1, 0), (x + 1, 0, 0), (x, (y or 0), 5)])):
            want = t >= (a, b, c) and (t[0] <= x if y is None else (t[0], t[1]) <= (x, y))
            evals += 1
            hy["probes"] += 1
            got = vr.NpmVersionRange.version_class(vtext(t)) in rng
            if got != want:
                hy["disagreements"] += 1
                viol(f"npm: {native!r} converts to {str(rng)!r}; version {vtext(t)}: vers says {got}, node-semver's partial-upper rule says {want}",
                     inputs=dict(notation="npm", native=native, probe=vtext(t)), observed=got, expected=want)
                break
    per["npm_hyphen_partial_upper"] = hy

    if not violations and (diffs or not proofs["ok"]):
        what = ("theorems of Props/C06.v no longer check: " + str(proofs.get("error"))[-400:]) if not proofs["ok"] else \
            ("the constraints from_native emits differ from the conversion model of the theorem: " + str(diffs[0]))
        violations.append(dict(kind="no-failing-input-found", stage="proof" if not proofs["ok"] else "correspondence",
                               theorem_or_stream="Props/C06.v" if not proofs["ok"] else "from_native vs Native/Intervals.to_constraints", what=what, diffs=diffs[:10]))
    cov = dict(evaluations=evals, distinct_nontrivial=len(nontrivial),
               rule="per native notation (maven, nuget, npm, conan, gem, pypi, deb, rpm, nginx, openssl): random expressions of the flat fragment over a ladder of 64 release versions "
                    "(up to 3 ascending, separated alternatives: exact versions, intervals with inclusive/exclusive/open ends, exclusions where the notation has them), rendered with "
                    "spelling variants; the result of from_native must validate, every ladder version is probed against the extracted native rule (nmatch), and the emitted constraints "
                    "are compared with the conversion model the theorem is about; shorthands (caret, tilde, x-ranges, ~>, version+) over fully specified versions are probed around every "
                    "bound against the extracted native rule; non-trivial = distinct native expressions",
               samples=samples, per_notation=per, conversion_model_differences=len(diffs))
    return core.finish(ctx, proofs, cov, violations, known_seen,
                       assumptions=["the native matching rules are the ones stated in coq/Native (written from the ecosystems' documentation); the abstract theorem assumes the scheme's order is a "
                                    "total preorder (C01/C02); shorthand theorems are on the semver model (npm, nginx), "
                                    "conan and gem shorthands use the same rules on numeric triples and are evaluated only"])
