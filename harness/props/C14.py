"""C14 — versions of unrelated schemes are never silently compared or matched."""
import operator
import random

from harness import common, core, gens, vers

PYOPS = {"eq": operator.eq, "ne": operator.ne, "lt": operator.lt, "le": operator.le, "gt": operator.gt, "ge": operator.ge}


def observe(f):
    try:
        r = f()
    except TypeError:
        return "TypeError"
    except ValueError:
        return "ValueError"
    except Exception as e:  # noqa
        return "Raise:" + type(e).__name__
    if r is True:
        return "True"
    if r is False:
        return "False"
    return "Other:" + repr(r)[:40]


def run(ctx):
    proofs = core.check_props_file(ctx)
    ctx.say(f"proofs: {proofs['discharged']}/{proofs['obligations']} discharged" + ("" if proofs["ok"] else " -- NOT OK: " + str(proofs.get("error"))[-600:]))
    violations, diffs = [], []
    T = ctx.tables
    if T is None:
        violations.append(dict(kind="no-failing-input-found", stage="translator", what="translator failed: " + str(ctx.translator_error)))
        return core.finish(ctx, proofs, dict(evaluations=1, distinct_nontrivial=0, rule="translator failed", samples=[]), violations, [])
    vc, vr, vs = vers.impl()
    r = random.Random(ctx.seed)
    nvals = 3 if ctx.tier == "quick" else 12
    classes = T["vclasses"]
    pools = {}
    for c in classes:
        vals = list(T["samples"][c])
        if c.__name__ in gens.GEN_BY_CLASS:
            vals += gens.valid_pool(r, c, nvals)
        pools[c] = vals[: nvals + 3]
    names = [c.__name__ for c in classes]
    # --- model outcomes for every ordered class pair and operator
    reqs = [f"richcmp {op} {a} {b}" for a in names for b in names for op in PYOPS] + [f"unrelated {a} {b}" for a in names for b in names]
    ans = core.run_driver(ctx, reqs)
    model = dict(zip(reqs, ans))
    evals = 0
    nontrivial = set()
    samples = []
    # --- implementation: every ordered pair of classes x 6 operators x sample values
    for A in classes:
        for B in classes:
            unrel = model[f"unrelated {A.__name__} {B.__name__}"] == "true"
            py_unrel = not issubclass(A, B) and not issubclass(B, A)
            if unrel != py_unrel:
                diffs.append(dict(what="subclass table disagrees", a=A.__name__, b=B.__name__))
            for op, f in PYOPS.items():
                m = model[f"richcmp {op} {A.__name__} {B.__name__}"]
                for a in pools[A]:
                    for b in pools[B]:
                        if a is b:
                            continue
                        o = observe(lambda: f(a, b))
                        evals += 1
                        expect = {"OTypeError": ("TypeError",), "OFalse": ("False",), "OTrue": ("True",),
                                  "OVal": ("True", "False"), "ORaise": None}[m]
                        same_cls_ni = A is B  # same class: some value pairs may still fall back (openssl eras)
                        okm = expect is None or o in expect or (same_cls_ni and o in ("True", "False", "TypeError"))
                        if unrel:
                            nontrivial.add((A.__name__, B.__name__, op))
                            want = "TypeError" if op in ("lt", "le", "gt", "ge") else ("False" if op == "eq" else "True")
                            if o != want:
                                violations.append(dict(kind="counterexample", stage="search",
                                                       what=f"{A.__name__}({a.string!r}) {op} {B.__name__}({b.string!r}) -> {o}, expected {want}",
                                                       inputs=dict(a_class=A.__name__, a=a.string, b_class=B.__name__, b=b.string, op=op),
                                                       observed=o, expected=want))
                        if not okm:
                            diffs.append(dict(what="model/implementation dispatch differs", a_class=A.__name__, a=a.string,
                                              b_class=B.__name__, b=b.string, op=op, model=m, impl=o))
                        if len(samples) < 6 and unrel and r.random() < 0.001:
                            samples.append(f"{A.__name__}({a.string!r}) {op} {B.__name__}({b.string!r}) -> {o} (model {m})")
    # --- containment of foreign versions in ranges and constraints
    for R in T["rclasses"]:
        if R.version_class is None:
            continue
        own = pools[R.version_class]
        for B in classes:
            unrel = not issubclass(B, R.version_class) and not issubclass(R.version_class, B)
            g = core.run_driver(ctx, [f"guard {R.__name__} {B.__name__}"])[0].split()
            for comp in (">=", "=", "!=", "<", "<=", ">", "*"):
                con = vc.VersionConstraint(comparator=comp, version=own[0]) if comp != "*" else vc.VersionConstraint(comparator="*", version_class=R.version_class)
                rngs = [R(constraints=[con]), R(constraints=[vc.VersionConstraint(comparator=">=", version=own[0])] +
                                                ([vc.VersionConstraint(comparator="!=", version=own[1])] if len(own) > 1 and own[1] != own[0] else []))]
                if comp == ">=":
                    # ranges without any constraint (the bare constructor, an empty from_versions, a normalize that keeps nothing)
                    for build in (lambda: R(constraints=[]), lambda: R.from_versions([]), lambda: R(constraints=[con]).normalize([])):
                        try:
                            rngs.append(build())
                        except Exception:  # noqa
                            pass
                for b in pools[B][:nvals]:
                    for rng in rngs:
                        o1 = observe(lambda: b in rng)
                        if unrel and o1 == "TypeError":
                            o1 = observe(lambda: rng.contains(b))       # the alias must refuse as well
                        evals += 1
                        if unrel and o1 != "TypeError":
                            violations.append(dict(kind="counterexample", stage="search",
                                                   what=f"{B.__name__}({b.string!r}) in {rng} -> {o1}, expected TypeError",
                                                   inputs=dict(range=str(rng), range_class=R.__name__, b_class=B.__name__, b=b.string), observed=o1, expected="TypeError"))
                    o2 = observe(lambda: b in con)
                    evals += 1
                    if unrel:
                        nontrivial.add((R.__name__, B.__name__, "in"))
                        if o2 != "ValueError":
                            violations.append(dict(kind="counterexample", stage="search",
                                                   what=f"{B.__name__}({b.string!r}) in constraint {con} -> {o2}, expected ValueError",
                                                   inputs=dict(constraint=str(con), version_class=R.version_class.__name__, b_class=B.__name__, b=b.string), observed=o2, expected="ValueError"))
                        if g != ["GTypeError", "GValueError"]:
                            diffs.append(dict(what="guard table", r=R.__name__, b=B.__name__, model=g))
    if len(samples) < 2:
        samples.append("DebianVersion('1.2-1') < RpmVersion('1.2-1') -> " + observe(lambda: vs.DebianVersion("1.2-1") < vs.RpmVersion("1.2-1")))
    if not violations and (diffs or not proofs["ok"]):
        what = ("theorems of Props/C14.v no longer check: " + str(proofs.get("error"))[-400:]) if not proofs["ok"] else \
            ("correspondence: " + str(diffs[0]))
        violations.append(dict(kind="no-failing-input-found", stage="proof" if not proofs["ok"] else "correspondence",
                               theorem_or_stream="Props/C14.v" if not proofs["ok"] else "dispatch matrix", what=what, diffs=diffs[:10]))
    cov = dict(evaluations=evals, distinct_nontrivial=len(nontrivial),
               rule="exhaustive over ordered pairs of the %d version classes x 6 operators and %d range classes x version classes, "
                    "each with up to %d generated values per class; non-trivial = distinct (class pair, operator) cells where neither class specialises the other"
                    % (len(classes), len(T["rclasses"]), nvals + 3),
               samples=samples, exhaustive=True, model_impl_differences=len(diffs),
               classes=names)
    return core.finish(ctx, proofs, cov, violations, [],
                       assumptions=["the guard does not depend on the value: proved for the model, sampled in the code"])
