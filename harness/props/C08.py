"""C08 — simplification keeps the meaning, only removes, reaches a valid fixed point."""
import random

from harness import common, core, dense, vers


def is_sublist(a, b):
    it = iter(b)
    return all(any(x == y for y in it) for x in a)


def run(ctx):
    proofs = core.check_props_file(ctx)
    ctx.say(f"proofs: {proofs['discharged']}/{proofs['obligations']} discharged" + ("" if proofs["ok"] else " -- NOT OK: " + str(proofs.get("error"))[-600:]))
    vc, vr, vs = vers.impl()
    r = random.Random(ctx.seed)
    N = 4 if ctx.tier == "quick" else 6
    maxlen = 12
    cases = []
    for n in range(0, N + 1):
        cases.extend(vers.all_patterns(n))
    n_exh = len(cases)
    for _ in range(600 if ctx.tier == "quick" else 10000):
        n = r.randint(N + 1, maxlen)
        cases.append([(r.choice(vers.OPS), 2 * (i + 1)) for i in range(n)])
    texts = [vers.clist_text(p) for p in cases]
    reqs = ["simplify " + t for t in texts]
    model = dict(zip(reqs, core.run_driver(ctx, reqs)))
    # meaning before/after, from the Coq spec `mem`
    reqs2 = set()
    for pat, t in zip(cases, texts):
        out = model["simplify " + t]
        for p in range(1, 2 * len(pat) + 2):
            reqs2.add(f"mem {t} {p}")
            if out.startswith("OK "):
                reqs2.add(f"mem {out[3:]} {p}")
    reqs2 = sorted(reqs2)
    model.update(zip(reqs2, core.run_driver(ctx, reqs2)))
    L = 2 * maxlen + 2
    schemes = vers.pick_schemes(r, L, want=3 if ctx.tier == "quick" else 6, always=("SemverVersion", "PypiVersion"))
    ctx.say("schemes:", [s.name for s in schemes], "patterns:", len(cases))
    evals = 0
    diffs, violations, samples = [], [], []
    nontrivial = set()

    def viol(what, **kw):
        violations.append(dict(kind="counterexample", stage="search", what=what, **kw))

    for s in schemes:
        rcls = vers.range_class_for(s.cls)
        registered = rcls.scheme if vr.RANGE_CLASS_BY_SCHEMES.get(rcls.scheme) is rcls else None
        for ci, pat in enumerate(cases):
            t = texts[ci]
            cons = s.constraints(pat)
            inp = list(cons)
            try:
                res = vc.VersionConstraint.simplify(inp)
                back = s.back(res)
                got = "OK " + vers.clist_text(back)
            except Exception as e:  # noqa
                res = None
                got = "ERR " + vers.err_name(e)
            evals += 1
            m = model["simplify " + t]
            txt = "|".join(str(c) for c in cons)
            if got != m:
                diffs.append(dict(scheme=s.name, constraints=txt, model=m, impl=got))
            if res is None:
                viol(f"{s.name}: simplify({txt}) raised {got}", inputs=dict(scheme=s.name, constraints=txt))
                continue
            if len(pat) >= 3:
                nontrivial.add(t)
            rt = vers.clist_text(back)
            rtxt = "|".join(str(c) for c in res)
            # (a) never changes which versions are in the range
            reqs_needed = []
            for p in range(1, 2 * len(pat) + 2):
                a = model[f"mem {t} {p}"]
                b = model.get(f"mem {rt} {p}")
                if b is None:
                    reqs_needed.append(p)
                    continue
                if a != b:
                    viol(f"{s.name}: simplify({txt}) = {rtxt} changes membership of {s.version(p).string!r}: {a} -> {b}",
                         inputs=dict(scheme=s.name, constraints=txt, version=s.version(p).string), observed=b, expected=a)
                    break
            if reqs_needed:
                extra = [f"mem {rt} {p}" for p in reqs_needed]
                for q, a2 in zip(extra, core.run_driver(ctx, extra)):
                    p = int(q.split()[-1])
                    if a2 != model[f"mem {t} {p}"]:
                        viol(f"{s.name}: simplify({txt}) = {rtxt} changes membership of {s.version(p).string!r}", inputs=dict(scheme=s.name, constraints=txt, version=s.version(p).string))
                        break
            # (b) returns a sub-list of the input
            if not is_sublist(res, cons):
                viol(f"{s.name}: simplify({txt}) = {rtxt} is not a sub-list of its input", inputs=dict(scheme=s.name, constraints=txt))
            # (c) validation accepts the result
            okv = vers.res_bool(lambda: vc.VersionConstraint.validate(list(res)))
            if okv != "OK true":
                viol(f"{s.name}: simplify({txt}) = {rtxt} is not accepted by validation: {okv}", inputs=dict(scheme=s.name, constraints=txt))
            # (d) simplifying the result again changes nothing
            again = vers.res_bool(lambda: vc.VersionConstraint.simplify(list(res)) == list(res))
            evals += 2
            if again != "OK true":
                viol(f"{s.name}: simplify is not idempotent on {txt}: first {rtxt}", inputs=dict(scheme=s.name, constraints=txt))
            # exact duplicates simply disappear
            if pat and ci % 3 == 0:
                dup = list(cons)
                for _ in range(r.randint(1, 2)):
                    i = r.randrange(len(dup))
                    dup.insert(i, dup[i])
                d = vers.res_bool(lambda: vc.VersionConstraint.simplify(dup) == res)
                evals += 1
                if d != "OK true":
                    viol(f"{s.name}: exact duplicates change the result of simplify: {'|'.join(str(c) for c in dup)}", inputs=dict(scheme=s.name, constraints=[str(c) for c in dup]))
            # through the text parser
            if registered and pat and ci % 5 == 0:
                text = f"vers:{registered}/" + txt
                o = vers.res_bool(lambda: str(vr.VersionRange.from_string(text, simplify=True)) == f"vers:{registered}/" + rtxt)
                evals += 1
                if o != "OK true":
                    viol(f"from_string({text!r}, simplify=True) differs from simplify(): {o}", inputs=dict(text=text))
                # the text may list the constraints in any order: from_string puts them in version order first
                parts = txt.split("|")
                if len(parts) > 1:
                    shuffled = list(parts)
                    r.shuffle(shuffled)
                    if shuffled == parts:
                        shuffled.reverse()
                    text2 = f"vers:{registered}/" + "|".join(shuffled)
                    o2 = vers.res_bool(lambda: str(vr.VersionRange.from_string(text2, simplify=True)) == f"vers:{registered}/" + rtxt)
                    evals += 1
                    if o2 != "OK true":
                        viol(f"from_string({text2!r}, simplify=True) differs from the simplification of the version-sorted list {rtxt!r}: {o2}", inputs=dict(text=text2))
            if ci % 1201 == 0 and len(samples) < 8:
                samples.append(dict(scheme=s.name, constraints=txt, simplified=rtxt))
    # ---- the same statement on dense families of versions (one edit apart, equal under another spelling): harness/dense.py
    dense_ev, dense_per = dense.run(ctx, "C08", r, lambda what, **kw: violations.append(dict(kind="counterexample", stage="search", what=what, **kw)))
    evals += dense_ev
    if not violations and (diffs or not proofs["ok"]):
        what = ("theorems of Props/C08.v no longer check: " + str(proofs.get("error"))[-400:]) if not proofs["ok"] else \
            ("model and implementation differ: " + str(diffs[0]))
        violations.append(dict(kind="no-failing-input-found", stage="proof" if not proofs["ok"] else "correspondence",
                               theorem_or_stream="Props/C08.v" if not proofs["ok"] else "VersionConstraint.simplify vs Model.simplify", what=what, diffs=diffs[:10]))
    cov = dict(evaluations=evals, dense_pairs=dense_per, distinct_nontrivial=len(nontrivial),
               rule=f"all 6^n comparator patterns n<={N} over distinct increasing versions (whether or not well-formed) plus random patterns up to length {maxlen}; "
                    "for each: simplify() compared with the model, membership before/after compared at every probe position with the Coq spec `mem`, sub-list, validation, "
                    "idempotence, inserted exact duplicates, and the from_string(simplify=True) wiring; non-trivial = distinct patterns with >=3 constraints",
               samples=samples, exhaustive=True, exhaustive_scope=f"patterns of length <= {N}", patterns=len(cases), exhaustive_patterns=n_exh,
               schemes=[s.name for s in schemes], model_impl_differences=len(diffs))
    return core.finish(ctx, proofs, cov, violations, [], assumptions=["C01/C02/C12 of the scheme"])
