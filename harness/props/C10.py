"""C10 — ranges built from explicit version sets contain exactly what they should."""
import itertools
import random

from harness import common, core, dense, vers


def run(ctx):
    proofs = core.check_props_file(ctx)
    ctx.say(f"proofs: {proofs['discharged']}/{proofs['obligations']} discharged" + ("" if proofs["ok"] else " -- NOT OK: " + str(proofs.get("error"))[-600:]))
    vc, vr, vs = vers.impl()
    r = random.Random(ctx.seed)
    N = 3 if ctx.tier == "quick" else 4
    G = 2 * N + 1  # grid positions 1..G
    pats = [[("*", None)], []]
    for n in range(1, N + 1):
        pats.extend(vers.all_patterns(n))
    texts = [vers.clist_text(p) for p in pats]
    model = dict(zip(["wf " + t for t in texts], core.run_driver(ctx, ["wf " + t for t in texts])))
    wf = [p for p, t in zip(pats, texts) if model["wf " + t] == "OK true"]
    for _ in range(40 if ctx.tier == "quick" else 400):
        wf.append(vers.random_wf_pattern(r, r.randint(N + 1, 6)))
    # universes: every subset of the grid for short patterns, sampled for the rest
    cases = []
    for pat in wf:
        n = len(pat)
        grid = list(range(1, max(2 * n + 2, 4)))
        subsets = []
        if len(grid) <= 7:
            for k in range(0, len(grid) + 1):
                subsets.extend(itertools.combinations(grid, k))
            if ctx.tier == "quick" and len(subsets) > 40:
                subsets = r.sample(subsets, 40)
        else:
            subsets = [tuple(sorted(r.sample(grid, r.randint(0, len(grid))))) for _ in range(12)]
        for sub in subsets:
            known = list(sub)
            # any order, with duplicates
            known += [r.choice(known) for _ in range(r.randint(0, 2))] if known else []
            r.shuffle(known)
            cases.append((pat, known))
    reqs = []
    for pat, known in cases:
        t = vers.clist_text(pat)
        k = ",".join(map(str, known)) if known else "-"
        reqs.append(f"normalize {t} {k}")
        for p in set(known):
            reqs.append(f"contains {t} {p}")
    reqs = sorted(set(reqs))
    model.update(zip(reqs, core.run_driver(ctx, reqs)))
    L = 16
    schemes = vers.pick_schemes(r, L, want=3 if ctx.tier == "quick" else 5, always=("SemverVersion", "PypiVersion"))
    ctx.say("schemes:", [s.name for s in schemes], "well-formed ranges:", len(wf), "range x universe cases:", len(cases))
    evals = 0
    diffs, violations, samples = [], [], []
    nontrivial = set()

    def viol(what, **kw):
        violations.append(dict(kind="counterexample", stage="search", what=what, **kw))

    for s in schemes:
        rcls = vers.range_class_for(s.cls)
        aliases = {p: vers.alias(s.version(p), need_hash=True) for p in range(len(s.lad))}
        pos_of = {}
        for p, v in enumerate(s.lad):
            pos_of[v.string] = p
            if aliases[p] is not None:
                pos_of[aliases[p].string] = p
        by_membership = {}
        for ci, (pat, known) in enumerate(cases):
            t = vers.clist_text(pat)
            rng = rcls(constraints=s.constraints(pat))
            # known version strings; every second duplicate uses another spelling of the same version
            seen = set()
            ks = []
            for p in known:
                if p in seen and aliases[p] is not None:
                    ks.append(aliases[p].string)
                else:
                    ks.append(s.version(p).string)
                seen.add(p)
            try:
                res = rng.normalize(ks)
                back = [("*", None) if c.comparator == "*" else (vers.NAME[c.comparator], pos_of[c.version.string]) for c in res.constraints]
                got = "OK " + vers.clist_text(back)
            except Exception as e:  # noqa
                res = None
                got = "ERR " + vers.err_name(e)
            evals += 1
            k = ",".join(map(str, known)) if known else "-"
            m = model[f"normalize {t} {k}"]
            if got != m:
                diffs.append(dict(scheme=s.name, range=str(rng), known=ks, model=m, impl=got))
            if res is None:
                viol(f"{s.name}: {rng}.normalize({ks}) raised {got}", inputs=dict(scheme=s.name, range=str(rng), known=ks))
                continue
            if len(pat) >= 1 and len(set(known)) >= 2:
                nontrivial.add((t, tuple(sorted(set(known)))))
            # (1) validation accepts it; empty when no known version is a member
            okv = vers.res_bool(lambda: vc.VersionConstraint.validate(list(res.constraints)))
            members = [p for p in sorted(set(known)) if model[f"contains {t} {p}"] == "OK true"]
            if okv != "OK true":
                viol(f"{s.name}: {rng}.normalize({ks}) = {res} is not accepted by validation ({okv})", inputs=dict(scheme=s.name, range=str(rng), known=ks))
            if not members and len(res.constraints) != 0:
                viol(f"{s.name}: {rng}.normalize({ks}) = {res} but no known version is a member", inputs=dict(scheme=s.name, range=str(rng), known=ks))
            # (2) contains a known version exactly when the original did
            for p in sorted(set(known)):
                for v in (s.version(p), aliases[p]):
                    if v is None:
                        continue
                    a, b = vers.res_bool(lambda: v in rng), vers.res_bool(lambda: v in res)
                    evals += 2
                    if a != b or a != model[f"contains {t} {p}"]:
                        viol(f"{s.name}: known version {v.string!r}: in {rng} -> {a}, in its normalisation {res} -> {b}",
                             inputs=dict(scheme=s.name, range=str(rng), known=ks, version=v.string), observed=[a, b], expected=model[f"contains {t} {p}"])
            # (3) shape: bounds are known versions; each maximal run of members is one closed interval or one exact version
            runs, cur = [], []
            for p in sorted(set(known)):
                if p in members:
                    cur.append(p)
                elif cur:
                    runs.append(cur)
                    cur = []
            if cur:
                runs.append(cur)
            want = []
            for run_ in runs:
                want += [("EQ", run_[0])] if run_[0] == run_[-1] else [("GE", run_[0]), ("LE", run_[-1])]
            if back != want:
                viol(f"{s.name}: {rng}.normalize({ks}) = {res}; expected one closed interval or exact version per maximal run of members: {vers.clist_text(want)}",
                     inputs=dict(scheme=s.name, range=str(rng), known=ks), observed=vers.clist_text(back), expected=vers.clist_text(want))
            # (4) same result for any ordering or duplication of the list
            ks2 = list(dict.fromkeys(ks))
            r.shuffle(ks2)
            res2 = vers.res_bool(lambda: rng.normalize(ks2) == res)  # equal ranges; the spelling of equal versions may differ
            evals += 1
            if res2 != "OK true":
                viol(f"{s.name}: {rng}.normalize depends on order/duplication: {ks} vs {ks2}", inputs=dict(scheme=s.name, range=str(rng), known=ks, known2=ks2))
            # (5) same result for ranges that agree on the known versions
            key = (tuple(sorted(set(known))), tuple(members))
            prev = by_membership.setdefault(key, (res, str(rng)))
            if not (prev[0] == res):
                viol(f"{s.name}: {rng} and {prev[1]} agree on the known versions {ks} but normalise to {res} and {prev[0]}", inputs=dict(scheme=s.name, range=str(rng), other=prev[1], known=ks))
            if ci % 1999 == 0 and len(samples) < 8:
                samples.append(dict(scheme=s.name, range=str(rng), known=ks, normalized=str(res)))
        # from_versions
        for _ in range(60 if ctx.tier == "quick" else 600):
            lst = [r.randrange(1, 10) for _ in range(r.randint(0, 6))]
            strs = [s.version(p).string if r.random() < 0.7 or aliases[p] is None else aliases[p].string for p in lst]
            # a version string may carry blanks and a leading v: the class normalises them away
            deco = []
            for t in strs:
                k = r.random()
                d = ("v" + t) if k < 0.15 else (" " + t + " ") if k < 0.3 else t
                try:
                    ok = s.cls(d) == s.cls(t)
                except Exception:  # noqa
                    ok = False
                deco.append(d if ok else t)
            strs = deco
            try:
                fv = rcls.from_versions(strs)
            except Exception as e:  # noqa
                viol(f"{s.name}: from_versions({strs}) raised {e!r}", inputs=dict(scheme=s.name, versions=strs))
                continue
            for p in range(1, 11):
                for v in (s.version(p), aliases[p]):
                    if v is None:
                        continue
                    a = vers.res_bool(lambda: v in fv)
                    evals += 1
                    want = "OK true" if p in lst else "OK false"
                    if a != want:
                        viol(f"{s.name}: {v.string!r} in from_versions({strs}) -> {a}, expected {want}", inputs=dict(scheme=s.name, versions=strs, version=v.string))
    # ---- the same statement on dense families of versions (one edit apart, equal under another spelling): harness/dense.py
    dense_ev, dense_per = dense.run(ctx, "C10", r, lambda what, **kw: violations.append(dict(kind="counterexample", stage="search", what=what, **kw)))
    evals += dense_ev
    if not violations and (diffs or not proofs["ok"]):
        what = ("theorems of Props/C10.v no longer check: " + str(proofs.get("error"))[-400:]) if not proofs["ok"] else \
            ("model and implementation differ: " + str(diffs[0]))
        violations.append(dict(kind="no-failing-input-found", stage="proof" if not proofs["ok"] else "correspondence",
                               theorem_or_stream="Props/C10.v" if not proofs["ok"] else "VersionRange.normalize vs Model.normalize", what=what, diffs=diffs[:10]))
    cov = dict(evaluations=evals, dense_pairs=dense_per, distinct_nontrivial=len(nontrivial),
               rule=f"every well-formed comparator pattern n<={N} (decided by the Coq spec, plus '*', the empty range and random longer ones) x universes = subsets of the "
                    "grid of positions at/between/around the bounds (all subsets for short patterns, sampled in the quick tier), shuffled, with duplicates and with "
                    "alternative spellings of equal versions; all five clauses of the property evaluated on the implementation, and normalize() compared with the model; "
                    "non-trivial = distinct (range, universe with >=2 versions)",
               samples=samples, exhaustive=ctx.tier == "thorough", cases=len(cases), schemes=[s.name for s in schemes], model_impl_differences=len(diffs),
               proved_in_coq="all clauses (Props/C10.v); order/duplication independence as equality of membership")
    return core.finish(ctx, proofs, cov, violations, [],
                       assumptions=["C01/C02/C12 of the scheme"])
