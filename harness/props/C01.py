"""C01 — version comparison is a strict weak order within every scheme."""
import functools
import random
import re

from harness import common, core, dense, gens, schemes, text, vers

MAVEN_DOC = re.compile(r"^\d+(\.\d+)*(-[a-z]+\d*)*$")


excluded = gens.order_excluded


def lt(a, b):
    return a < b


def triple_laws(name, a, b, c):
    """returns a list of (law, detail) violated by the triple"""
    bad = []
    ab, ba, bc, cb, ac, ca = lt(a, b), lt(b, a), lt(b, c), lt(c, b), lt(a, c), lt(c, a)
    if lt(a, a):
        bad.append("irreflexive")
    if ab and ba:
        bad.append("asymmetric")
    if ab and bc and not ac:
        bad.append("transitive")
    if (a > b) != ba or (b > a) != ab:
        bad.append("> is the converse of <")
    if (not ab and not ba) and (not bc and not cb) and (ac or ca):
        bad.append("incomparability is transitive")
    return bad


def run(ctx):
    proofs = core.check_props_file(ctx)
    ctx.say(f"proofs: {proofs['discharged']}/{proofs['obligations']} discharged" + ("" if proofs["ok"] else " -- NOT OK: " + str(proofs.get("error"))[-600:]))
    vc, vr, vs = vers.impl()
    r = random.Random(ctx.seed)
    known = core.load_findings("C01")
    modelled = schemes.modelled(ctx)
    ntriples = 6000 if ctx.tier == "quick" else 150000
    evals = 0
    diffs, violations, samples, known_seen = [], [], [], []
    nontrivial = set()
    per_class = {}
    # every listed finding is replayed on its witness: it is announced only while it still reproduces
    for k in known:
        if k.get("kind") != "finding":
            continue
        cls = getattr(vs, k["class"])
        for w in k.get("witnesses", []):
            try:
                a, b, c = cls(w["a"]), cls(w["b"]), cls(w["c"])
                if triple_laws(k["class"], a, b, c) and k["text"] not in known_seen:
                    known_seen.append(k["text"])
            except Exception:
                pass
        if k["text"] not in known_seen:
            ctx.say("note: listed finding no longer reproduces on its witness:", k["id"])
    for cls in schemes.classes():
        name = cls.__name__
        if name not in gens.GEN_BY_CLASS:
            continue
        st = schemes.streams(r, cls, ctx.tier)
        values, seen = [], set()
        for k in ("near", "grammar", "small"):
            for s in st.get(k, []):
                if s in seen:
                    continue
                seen.add(s)
                stt, v = schemes.observe_ctor(cls, s)
                if stt == "OK":
                    values.append(v)
        nviol = 0
        # triples of near neighbours (windows of the near-pair stream) and random triples
        triples = []
        n = len(values)
        import itertools
        for i in range(0, max(0, n - 3), 2):
            w = values[i:i + 4]
            triples.extend(itertools.permutations(w, 3))   # every ordered triple of the window
            if len(triples) >= (ntriples * 2) // 3:
                break
        while len(triples) < ntriples and n >= 3:
            triples.append((r.choice(values), r.choice(values), r.choice(values)))
        for fam in dense.families(r, cls, 4 if ctx.tier == "quick" else 40):   # same base, small variations (harness/dense.py)
            triples.extend(itertools.permutations(fam[:6], 3))
        for a, b, c in triples:
            if excluded(name, a, b) or excluded(name, b, c) or excluded(name, a, c):
                continue
            evals += 1
            try:
                bad = triple_laws(name, a, b, c)
            except Exception as e:  # noqa
                bad = [f"comparison raised {e!r}"]
            if len({a.string, b.string, c.string}) == 3:
                nontrivial.add((name, a.string, b.string, c.string))
            if bad:
                nviol += 1
                kf = [k for k in known if k.get("class") == name and k.get("kind") == "finding"]
                if kf and kf[0]["text"] in known_seen and name == "MavenVersion" and not all(MAVEN_DOC.match(x.string.lower()) for x in (a, b, c)):
                    continue
                if nviol <= 3:
                    violations.append(dict(kind="counterexample", stage="search",
                                           what=f"{name}: the law '{bad[0]}' fails on ({a.string!r}, {b.string!r}, {c.string!r})",
                                           inputs=dict(version_class=name, a=a.string, b=b.string, c=c.string), observed=bad))
        # sorting: the sequence of equivalence classes does not depend on the input order
        pool = [v for v in values[:40]]
        if name in ("ArchLinuxVersion", "ConanVersion"):
            pool = [v for v in pool if not any(excluded(name, v, w) for w in pool)]
        if len(pool) >= 3 and not (name == "MavenVersion"):
            for _ in range(20 if ctx.tier == "quick" else 300):
                x = r.sample(pool, min(len(pool), r.randint(3, 12)))
                y = list(x)
                r.shuffle(y)
                try:
                    sx, sy = sorted(x), sorted(y)
                    same = len(sx) == len(sy) and all((not (p < q)) and (not (q < p)) for p, q in zip(sx, sy))
                except Exception as e:  # noqa
                    same = False
                evals += 1
                if not same:
                    nviol += 1
                    violations.append(dict(kind="counterexample", stage="search",
                                           what=f"{name}: sorting {[v.string for v in x]} and a shuffled copy gives different sequences of equivalence classes",
                                           inputs=dict(version_class=name, versions=[v.string for v in x], shuffled=[v.string for v in y])))
                    break
        per_class[name] = dict(values=len(values), triples=len(triples), violating=nviol, modelled=name in modelled)
        if name in modelled:
            pairs = schemes.pairs_from(r, values[:300], 1500 if ctx.tier == "quick" else 30000)
            pairs = dense.pairs(r, cls, 5 if ctx.tier == "quick" else 50, 500 if ctx.tier == "quick" else 8000) + pairs   # same base, small variations first
            nreq, d, _ = schemes.correspondence(ctx, cls, st.get("grammar", [])[:200], pairs)
            evals += nreq
            diffs.extend(d[:5])
            # the model and the implementation differ on a pair and no law has failed yet: search around that pair for a
            # triple on which the property itself fails (third elements: the families of the two versions, then the pool)
            if d and nviol == 0:
                found = False
                for df in [x for x in d if x.get("request", "").startswith("vpair")][:8]:
                    try:
                        pa, pb = cls(df["inputs"][0]), cls(df["inputs"][1])
                    except Exception:  # noqa
                        continue
                    third = []
                    for t in (pa.string, pb.string):
                        for _kind, fam in dense.family_texts(cls, t):
                            for x in fam:
                                try:
                                    third.append(cls(x))
                                except Exception:  # noqa
                                    pass
                    for pc in third + values[:150]:
                        for x, y, z in itertools.permutations((pa, pb, pc), 3):
                            if excluded(name, x, y) or excluded(name, y, z) or excluded(name, x, z):
                                continue
                            evals += 1
                            try:
                                bad = triple_laws(name, x, y, z)
                            except Exception as e:  # noqa
                                bad = [f"comparison raised {e!r}"]
                            if bad:
                                violations.append(dict(kind="counterexample", stage="search",
                                                       what=f"{name}: the law '{bad[0]}' fails on ({x.string!r}, {y.string!r}, {z.string!r}) (found from a model/implementation difference)",
                                                       inputs=dict(version_class=name, a=x.string, b=y.string, c=z.string), observed=bad))
                                nviol += 1
                                found = True
                                break
                        if found:
                            break
                    if found:
                        break
        if triples and len(samples) < 10:
            a, b, c = triples[len(triples) // 3]
            samples.append(dict(version_class=name, triple=[a.string, b.string, c.string]))
    if not violations and (diffs or not proofs["ok"]):
        what = ("theorems of Props/C01.v no longer check: " + str(proofs.get("error"))[-400:]) if not proofs["ok"] else \
            ("model and implementation differ: " + str(diffs[0]))
        violations.append(dict(kind="no-failing-input-found", stage="proof" if not proofs["ok"] else "correspondence",
                               theorem_or_stream="Props/C01.v" if not proofs["ok"] else "scheme comparison vs coq/Schemes models", what=what, diffs=diffs[:10]))
    cov = dict(evaluations=evals, distinct_nontrivial=len(nontrivial),
               rule="for every version class: valid versions from the near-pair, grammar and small-alphabet streams; triples from sliding windows of near neighbours plus random triples "
                    "(the two excluded sub-domains filtered out); the five laws and the order-independence of sorted() evaluated on the implementation; for modelled classes the "
                    "operators, the key order of the theorems and the theorem domain are compared with the implementation; non-trivial = distinct triples of three different texts",
               samples=samples, per_class=per_class, modelled_classes=sorted(modelled), model_impl_differences=len(diffs))
    return core.finish(ctx, proofs, cov, violations, known_seen,
                       assumptions=["theorems cover the classes listed in coverage.modelled_classes (on the shape every accepted version has); the other classes are tested on the implementation only"])
