"""C07 — validation accepts exactly the well-formed constraint sequences."""
import itertools
import random

from harness import common, core, dense, vers

OPS7 = vers.OPS + ["*"]


def alias(v):
    """an equal version with a different spelling, where the scheme has one (and hashes agree)"""
    n = type(v).__name__
    try:
        if n in ("PypiVersion", "RubygemsVersion"):
            w = type(v)(v.string + ".0")
            if w == v and hash(w) == hash(v) and str(w) != str(v):
                return w
    except Exception:
        pass
    return None


def spec_wf(ctx_model, pat):
    """C07 sentence, evaluated with the Coq spec wf_sorted on the version-ordered list"""
    if pat == [("*", None)]:
        return True
    if any(o == "*" for o, _ in pat):
        return False
    ps = [p for _, p in pat]
    if len(set(ps)) != len(ps):
        return False
    s = sorted(pat, key=lambda it: it[1])
    return ctx_model("wf " + vers.clist_text(s)) == "OK true"


def run(ctx):
    proofs = core.check_props_file(ctx)
    ctx.say(f"proofs: {proofs['discharged']}/{proofs['obligations']} discharged" + ("" if proofs["ok"] else " -- NOT OK: " + str(proofs.get("error"))[-600:]))
    vc, vr, vs = vers.impl()
    r = random.Random(ctx.seed)
    N = 4 if ctx.tier == "quick" else 6
    # ---- cases: lists of (op, pos) in arbitrary order, duplicates allowed
    cases = []
    for n in range(0, min(N, 3) + 1):  # full: every op sequence x every position assignment
        for ops in itertools.product(OPS7, repeat=n):
            for poss in itertools.product(range(1, n + 1), repeat=n):
                cases.append([(o, None if o == "*" else 2 * p) for o, p in zip(ops, poss)])
    n_full = len(cases)
    for n in range(4, N + 1):  # every op sequence in version order + a shuffled copy
        for ops in itertools.product(OPS7, repeat=n):
            pat = [(o, None if o == "*" else 2 * (i + 1)) for i, o in enumerate(ops)]
            cases.append(pat)
            if r.random() < (0.5 if n == 4 else 0.1):
                q = list(pat)
                r.shuffle(q)
                cases.append(q)
    for _ in range(400 if ctx.tier == "quick" else 5000):  # longer, mostly well-formed, shuffled, sometimes with a duplicate
        n = r.randint(5, 12)
        pat = vers.random_wf_pattern(r, n)
        k = r.random()
        if k < 0.25:
            i = r.randrange(n)
            pat[i] = (r.choice(vers.OPS), pat[i][1])
        elif k < 0.4:
            i, j = r.randrange(n), r.randrange(n)
            pat[i] = (pat[i][0], pat[j][1])
        r.shuffle(pat)
        cases.append(pat)
    texts = [vers.clist_text(p) for p in cases]
    reqs = sorted(set(["validate " + t for t in texts] + ["sort " + t for t in texts] +
                      ["wf " + vers.clist_text(sorted(p, key=lambda it: it[1])) for p in cases if all(o != "*" for o, _ in p)]))
    model = dict(zip(reqs, core.run_driver(ctx, reqs)))
    L = 2 * 12 + 2
    schemes = vers.pick_schemes(r, L, want=3 if ctx.tier == "quick" else 5, always=("SemverVersion", "PypiVersion"))
    ctx.say("schemes:", [s.name for s in schemes])
    evals = 0
    diffs, violations, samples = [], [], []
    nontrivial = set()
    probe_reqs = {}
    for s in schemes:
        rcls = vers.range_class_for(s.cls)
        registered = rcls.scheme if vr.RANGE_CLASS_BY_SCHEMES.get(rcls.scheme) is rcls else None
        for ci, pat in enumerate(cases):
            t = texts[ci]
            cons = s.constraints(pat)
            # second and later occurrences of a position use an alias spelling when the scheme has one
            seen = set()
            for i, (o, p) in enumerate(pat):
                if p in seen and o != "*":
                    a = alias(s.lad[p])
                    if a is not None:
                        cons[i] = vc.VersionConstraint(comparator=vers.TEXT[o], version=a)
                seen.add(p)
            lst = list(cons)
            got = vers.res_bool(lambda: vc.VersionConstraint.validate(lst))
            evals += 1
            m = model["validate " + t]
            want = "OK true" if spec_wf(lambda q: model[q], pat) else "ERR EValue"
            if len(pat) >= 2:
                nontrivial.add(t)
            if got != m:
                diffs.append(dict(scheme=s.name, constraints=[str(c) for c in cons], model=m, impl=got))
            if got != want:
                violations.append(dict(kind="counterexample", stage="search",
                                       what=f"{s.name}: validate({[str(c) for c in cons]}) -> {got}; the sequence is {'well-formed' if want == 'OK true' else 'not well-formed'}, expected {want}",
                                       inputs=dict(scheme=s.name, constraints=[str(c) for c in cons], pattern=t), observed=got, expected=want))
            if got == "OK true":
                # the accepted list, as validate() left it, must be testable for membership of any version
                ms = model["sort " + t]
                back = vers.clist_text(s.back(lst))
                if ms != "OK " + back:
                    diffs.append(dict(scheme=s.name, what="list after validate() differs from the model's sorted list", model=ms, impl=back))
                n = len(pat)
                for p in range(1, 2 * n + 2) if n <= 4 else r.sample(range(1, 2 * n + 2), 4):
                    v = s.version(p)
                    o = vers.res_bool(lambda: vc.contains_version(v, lst))
                    evals += 1
                    if not o.startswith("OK "):
                        violations.append(dict(kind="counterexample", stage="search",
                                               what=f"{s.name}: membership of {v.string!r} in the validated list {[str(c) for c in lst]} raised {o}",
                                               inputs=dict(scheme=s.name, constraints=[str(c) for c in cons], version=v.string), observed=o, expected="a boolean"))
                    probe_reqs[(s.name, back, p)] = o
            # through the text parser
            if registered and ci % 7 == 0 and pat:
                text = f"vers:{registered}/" + "|".join(str(c) for c in cons)
                if ci % 14 == 0:
                    # the verdict must not depend on what was parsed before: the same text read earlier without validation
                    try:
                        vr.VersionRange.from_string(text, validate=False)
                        vr.VersionRange.from_string(text, simplify=False, validate=False)
                    except Exception:  # noqa
                        pass
                o = vers.res_bool(lambda: bool(vr.VersionRange.from_string(text, validate=True)))
                evals += 1
                # duplicated '*' items or a leading '*' are refused by the parser before validation
                if want == "OK true" and o != "OK true" or want != "OK true" and o not in ("ERR EValue", "ERR EInvalidVersion"):
                    if not (want != "OK true" and o == "OK true" and len(set(str(c) for c in cons)) < len(cons)):
                        violations.append(dict(kind="counterexample", stage="search",
                                               what=f"from_string({text!r}, validate=True) -> {o}, expected {want}",
                                               inputs=dict(text=text), observed=o, expected=want))
            if ci % 1499 == 0 and len(samples) < 8:
                samples.append(dict(scheme=s.name, constraints=[str(c) for c in cons], validate=got))
    # membership answers on validated lists agree with the model
    reqs2 = sorted(set(f"contains {b} {p}" for (_, b, p) in probe_reqs))
    m2 = dict(zip(reqs2, core.run_driver(ctx, reqs2)))
    for (sn, b, p), o in probe_reqs.items():
        if m2[f"contains {b} {p}"] != o:
            diffs.append(dict(scheme=sn, what="membership on validated list", constraints=b, probe=p, model=m2[f"contains {b} {p}"], impl=o))
    # ---- the same statement on dense families of versions (one edit apart, equal under another spelling): harness/dense.py
    dense_ev, dense_per = dense.run(ctx, "C07", r, lambda what, **kw: violations.append(dict(kind="counterexample", stage="search", what=what, **kw)))
    evals += dense_ev
    if not violations and (diffs or not proofs["ok"]):
        what = ("theorems of Props/C07.v no longer check: " + str(proofs.get("error"))[-400:]) if not proofs["ok"] else \
            ("model and implementation differ: " + str(diffs[0]))
        violations.append(dict(kind="no-failing-input-found", stage="proof" if not proofs["ok"] else "correspondence",
                               theorem_or_stream="Props/C07.v" if not proofs["ok"] else "VersionConstraint.validate vs Model.validate",
                               what=what, diffs=diffs[:10]))
    cov = dict(evaluations=evals, dense_pairs=dense_per, distinct_nontrivial=len(nontrivial),
               rule=f"all 7^n comparator sequences (with '*') x all position assignments (permutations and duplicated versions) for n<=3 ({n_full} lists), "
                    f"all 7^n sequences in version order plus shuffled copies for 4<=n<={N}, random longer shuffled lists with mutations and duplicates; "
                    f"on {len(schemes)} schemes (duplicated versions use a different spelling where the scheme has one); accepted lists are then probed for membership "
                    "on the very list object validate() sorted; non-trivial = distinct lists with >=2 constraints",
               samples=samples, exhaustive=True, exhaustive_scope=f"n<=3 full, n<={N} comparator sequences", lists=len(cases),
               schemes=[s.name for s in schemes], model_impl_differences=len(diffs))
    return core.finish(ctx, proofs, cov, violations, [],
                       assumptions=["the scheme's comparison is a total preorder, its operators agree with it and equal versions hash alike (C01, C02, C12 of the scheme)"])
