"""C03 — each scheme orders versions the way its ecosystem's reference algorithm does."""
import random
import re

from harness import common, core, dense, gens, schemes, text, vers

# extra grammar for the reference domains: shapes the per-class generators produce rarely
EXTRA = {
    "RpmVersion": ["1.0~rc1", "1.0^git1", "1.0~rc1^git1", "1.0", "1.0-1", "1.0-1~bpo1", "1.0-1^post1", "2:1.0-1", "1.0a", "1.0.a", "1a.0", "1.0_1", "1.0+1",
                   "1.01", "1.001", "1.0~", "1.0^", "1.0~~", "1.0^^", "1.0~^", "1.0^~", "1.A", "1.a", "1.0.0", "1..0", "1.0-01"],
    "DebianVersion": ["1.0A", "1.0a", "1.0~", "1.0~~", "1.0+", "1.0-", "1.0.", "1.0~a", "1.0+a", "2.4.7-1Ubuntu1", "2.4.7-1ubuntu1", "1:1.0", "0:1.0", "1.0-0", "1.0", "1.0-00",
                      "1.00", "1.0a~", "1.0a+", "1.0Z", "1.0z", "1.0-a", "1.0-A", "1.0-1~", "1.0-1+"],
    "ArchLinuxVersion": ["1.0a", "1.0b", "1.0beta", "1.0p", "1.0pre", "1.0rc", "1.0", "1.0.a", "1.0.1", "1", "1.1", "1.1.1", "1.2", "2.0", "3.0.0", "1:1.0", "1.0-1", "1.0-2",
                         "1.0_1", "1.0+1", "1.0a1", "1.0.0", "1.00", "1.0alpha", "1.0.alpha", "1.0+r5+gabc", "1.0.r5.gabc"],
    "GentooVersion": ["1.0", "1.00", "1.01", "1.1", "1.10", "1.010", "1.0a", "1.0b", "1.0_alpha", "1.0_alpha1", "1.0_beta", "1.0_pre", "1.0_rc", "1.0_p", "1.0_p1", "1.0-r1", "1.0-r0",
                      "1.0_alpha_p1", "1.0_p_alpha", "1.0_rc1_p1", "01.0", "1", "1.0.0", "1.0_pre1", "1.0_rc2-r1"],
    "MavenVersion": ["1", "1.0", "1-0", "1.ga", "1-ga", "1-final", "1.0-alpha-1", "1.0-a1", "1.0-alpha1", "1.0-ALPHA-1", "1.0-beta-1", "1.0-b1", "1.0-milestone-1", "1.0-m1", "1.0-rc-1",
                     "1.0-cr1", "1.0-rc1", "1.0-SNAPSHOT", "1.0-sp", "1.0-whatever", "1.0.1", "1.1", "1-1", "1-foo", "1.0.0-foo.0.0", "1.0.0-0.0.0", "2.0.1-klm", "2.0.1-lmn", "2.0.1-xyz",
                     "2.0.1-123", "5.0.0.RC1", "5.0.0", "5", "1.0.alpha", "3.0.0.SNAPSHOT", "3", "1.0.0.RC1", "1.alpha", "1.0.sp", "1.0.0.0.1", "1.a", "1a", "1.0a1", "1-a1", "1.0.0-1"],
    "RubygemsVersion": ["1.0", "1.0.0", "1.0.a", "1.8.2", "1.8.2.a", "1.8.2.b", "1.8.2.a10", "1.8.2.a9", "5.2.4", "5.2.4.rc1", "1.0.0-rc1", "1.0.0.rc1", "1.9.3", "1.9.3.1", "0",
                        "0.beta.1", "0.0.beta.1", "1.0.0.pre", "1.0.0.pre.1", "1.a.0", "1.0.a.0", "1.A", "1.a", "2.0.0.0", "1.0.b1", "1.0.1b"],
    "NugetVersion": ["1.0.0", "1.0", "1.0.0.1", "1.0.0.0", "1.0.0-alpha", "1.0.0-ALPHA", "1.0.0-alpha.1", "1.0.0-1", "1.0.0-a", "1.0.0-2", "1.0.0-10", "1.0.0+a", "1.0.0+b",
                     "1.0.0-beta", "1.0.0.0-rc", "1.0.0-rc.1", "1.0.1", "1.1.0", "2.0.0", "1.0.0-alpha.beta", "1.0.0-alpha.2", "1.0.0-Beta", "1.0.0.2-a"],
    "ConanVersion": ["1.0", "1", "1.0.1", "1.0-pre", "1.0-alpha", "1.0-beta", "1.0+1", "1.0+2", "1.2", "1.10", "1.a", "1.b", "1.0-pre.1", "1.0-pre.2", "1.0-pre+b", "1.0.0", "1.0-1", "1.0-2",
                     "1.0-10", "2.0", "1.0-pre.1+b1", "1.0+b1-pre"],
    "OpensslVersion": ["0.9.8", "0.9.8a", "0.9.8z", "0.9.8za", "0.9.8zh", "1.0.0", "1.0.0-beta1", "1.0.0-beta5", "1.0.1", "1.0.1a", "1.0.2-beta1", "1.0.2", "1.1.0-pre1", "1.1.0-pre6", "1.1.0",
                       "1.1.0a", "1.1.1-pre9", "1.1.1", "1.1.1w", "3.0.0", "3.0.1", "3.1.0", "3.0.0-alpha1", "3.0.0-beta2", "0.9.7-alpha2", "0.9.7-beta1", "0.9.7"],
    "PypiVersion": ["1.dev0", "1.0.dev456", "1.0a1", "1.0a2.dev456", "1.0a12.dev456", "1.0a12", "1.0b1.dev456", "1.0b2", "1.0b2.post345.dev456", "1.0b2.post345", "1.0rc1.dev456",
                    "1.0rc1", "1.0", "1.0+abc.5", "1.0+abc.7", "1.0+5", "1.0.post456.dev34", "1.0.post456", "1.0.15", "1.1.dev1", "1", "v1.0", "1.0.ALPHA-1", "1.0a", "1.0a0", "1.0c1",
                    "1.0-preview.1", "1.0.post1", "1.0-1", "1.0rev1", "1.0.post", "1.0dev", "1!1.0", "2.0", "1.0+ubuntu.1", "1.0+ubuntu-1", "1.0+1", "1.0+a", "01.02", "1.2", "1.0+a.b",
                    "1.0.0", "1.0post1", "1.0r1", "1.0_beta_2", "1.0-rc-3", "0!1.0", "1.0.post0.dev1", "1.0+001", "1.0+1.a", "1.0+a.1"],
    "SemverVersion": ["1.0.0-alpha", "1.0.0-alpha.1", "1.0.0-alpha.beta", "1.0.0-beta", "1.0.0-beta.2", "1.0.0-beta.11", "1.0.0-rc.1", "1.0.0", "1.0.0+7", "1.0.0+build", "1.0.0-1", "1.0.0-a",
                      "1.0.0-A", "1.0.0-a-b", "1.0.0-0", "2.0.0", "1.10.0", "1.9.0"],
}
EXTRA["LegacyOpensslVersion"] = [x for x in EXTRA["OpensslVersion"] if not x.startswith("3")]
EXTRA["AlpineLinuxVersion"] = [x for x in EXTRA["GentooVersion"] if not x.startswith("0")]
for _k in ("NginxVersion", "GolangVersion", "ComposerVersion"):
    EXTRA[_k] = EXTRA["SemverVersion"]


def alpm_walk(t):
    """pacman's view of one of epoch / pkgver / pkgrel: [(separator run length, segment)] and the trailing run length"""
    out, i, n = [], 0, len(t)
    while i < n:
        j = i
        while j < n and not t[j].isalnum():
            j += 1
        if j == n:
            return out, j - i
        k = j
        if t[j].isdigit():
            while k < n and t[k].isdigit():
                k += 1
        else:
            while k < n and t[k].isalpha():
                k += 1
        out.append((j - i, t[j:k]))
        i = k
    return out, 0


def alpm_split(v):
    m = re.match(r"^(\d*):(.*)$", v)
    e, rest = (m.group(1) or "0", m.group(2)) if m else ("0", v)
    if "-" in rest:
        ver, rel = rest.rsplit("-", 1)
    else:
        ver, rel = rest, None
    return e, ver, rel


def alpm_separators_differ(a, b):
    """the class of the listed finding: the separator runs of the two versions do not line up"""
    pa, pb = alpm_split(a), alpm_split(b)
    for x, y in zip(pa, pb):
        if x is None or y is None:
            continue
        (sx, tx), (sy, ty) = alpm_walk(x), alpm_walk(y)
        if tx or ty:
            return True
        for (lx, _), (ly, _) in zip(sx, sy):
            if lx != ly:
                return True
        if sx and sx[0][0] or sy and sy[0][0]:
            return True
    return False


PREDICATES = {"alpm_separators_differ": alpm_separators_differ}


def sign(a, b):
    """before / same / after as the implementation answers it: from a<b, a>b, a==b"""
    lt, gt, eq = a < b, a > b, a == b
    if (lt, gt, eq) == (True, False, False):
        return "lt"
    if (lt, gt, eq) == (False, True, False):
        return "gt"
    if (lt, gt, eq) == (False, False, True):
        return "eq"
    return f"inconsistent(lt={lt},gt={gt},eq={eq})"


def run(ctx):
    proofs = core.check_props_file(ctx)
    ctx.say(f"proofs: {proofs['discharged']}/{proofs['obligations']} discharged" + ("" if proofs["ok"] else " -- NOT OK: " + str(proofs.get("error"))[-600:]))
    vc, vr, vs = vers.impl()
    r = random.Random(ctx.seed)
    known = core.load_findings("C03")
    modelled = schemes.modelled(ctx)
    npairs = 2500 if ctx.tier == "quick" else 60000
    evals = 0
    diffs, violations, samples, known_seen = [], [], [], []
    nontrivial = set()
    per_class = {}
    # listed findings are replayed first, deterministically
    for k in known:
        if k.get("kind") != "finding":
            continue
        for w in k.get("witnesses", []):
            cls = getattr(vs, k["class"])
            try:
                got = sign(cls(w["a"]), cls(w["b"]))
            except Exception as e:  # noqa
                got = "raised " + type(e).__name__
            if got != w["reference"] and k["text"] not in known_seen:
                known_seen.append(k["text"])

    def is_known(name, a, b):
        for k in known:
            if k.get("kind") == "finding" and k.get("class") == name:
                hit = False
                if k.get("pair_regex"):
                    rx = re.compile(k["pair_regex"])
                    hit = bool(rx.search(a) or rx.search(b))
                if k.get("predicate") in PREDICATES:
                    hit = hit or PREDICATES[k["predicate"]](a, b)
                if hit:
                    if k["text"] not in known_seen:
                        known_seen.append(k["text"])
                    return True
        return False

    for cls in schemes.classes():
        name = cls.__name__
        probe = core.run_driver(ctx, [f"refcmp {name} {text.hx('1.0')} {text.hx('1.0')}"])[0]
        if probe == "NOREF":
            per_class[name] = dict(reference=False)
            continue
        st = schemes.streams(r, cls, ctx.tier)
        values, seen = [], set()
        for k in ("grammar", "near", "small"):
            for s in EXTRA.get(name, []) * (k == "grammar") + st.get(k, []):
                if s in seen or any(ord(ch) > 126 for ch in s):
                    continue
                seen.add(s)
                stt, v = schemes.observe_ctor(cls, s)
                if stt == "OK":
                    values.append(v)
        # neighbours of the hand-written shapes
        for s in EXTRA.get(name, []):
            try:
                for v in gens.neighbours(r, cls, s, k=2):
                    if v.string not in seen and all(ord(ch) <= 126 for ch in v.string):
                        seen.add(v.string)
                        values.append(v)
            except Exception:
                pass
        cap = 400 if ctx.tier == "quick" else 3000
        nextra = len(EXTRA.get(name, []))
        if len(values) > cap:
            values = values[:nextra] + r.sample(values[nextra:], cap - nextra)
        pairs = schemes.pairs_from(r, values, npairs) + gens.equal_variant_pairs(r, cls, values[:200], npairs // 5)
        pairs = dense.pairs(r, cls, 5 if ctx.tier == "quick" else 50, 600 if ctx.tier == "quick" else 8000) + pairs   # same base, small variations (harness/dense.py)
        # all pairs of the hand-written shapes
        head = values[:nextra]
        pairs += [(a, b) for a in head for b in head]
        reqs, keep = [], []
        for a, b in pairs:
            if gens.order_excluded(name, a, b):
                continue
            # the reference is given the normalised text the value was built from
            ta, tb = cls.normalize(a.string), cls.normalize(b.string)
            reqs.append(f"refcmp {name} {text.hx(ta)} {text.hx(tb)}")
            keep.append((a, b))
        got = core.run_driver(ctx, reqs)
        outside = agree = nviol = 0
        for (a, b), g in zip(keep, got):
            evals += 1
            if g == "OUTSIDE":
                outside += 1
                continue
            try:
                s = sign(a, b)
            except Exception as e:  # noqa
                s = "raised " + type(e).__name__
            if a.string != b.string:
                nontrivial.add((name, a.string, b.string))
            if s == g:
                agree += 1
                continue
            if is_known(name, a.string, b.string):
                continue
            nviol += 1
            if nviol <= 3:
                violations.append(dict(kind="counterexample", stage="search",
                                       what=f"{name}: {a.string!r} vs {b.string!r}: univers says {s}, the reference procedure says {g}",
                                       inputs=dict(version_class=name, a=a.string, b=b.string), observed=s, expected=g))
        per_class[name] = dict(reference=True, theorem=name in modelled and name != "GenericVersion", values=len(values), pairs=len(keep), in_reference_domain=len(keep) - outside,
                               outside_reference_domain=outside, agree=agree, disagree=nviol)
        if name in modelled:
            n, d, _ = schemes.correspondence(ctx, cls, [], keep[: (800 if ctx.tier == "quick" else 20000)])
            evals += n
            diffs.extend(d[:5])
        if len(samples) < 12 and keep:
            i = len(keep) // 3
            samples.append(dict(version_class=name, a=keep[i][0].string, b=keep[i][1].string, reference=got[i]))
    if not violations and (diffs or not proofs["ok"]):
        what = ("theorems of Props/C03.v no longer check: " + str(proofs.get("error"))[-400:]) if not proofs["ok"] else \
            ("model and implementation differ: " + str(diffs[0]))
        violations.append(dict(kind="no-failing-input-found", stage="proof" if not proofs["ok"] else "correspondence",
                               theorem_or_stream="Props/C03.v" if not proofs["ok"] else "scheme operators vs coq/Schemes models", what=what, diffs=diffs[:10]))
    cov = dict(evaluations=evals, distinct_nontrivial=len(nontrivial),
               rule="for every version class with a reference procedure in coq/Ref: valid versions from hand-written shapes of the reference's documentation, the grammar, near-pair "
                    "(source-mined words included) and small-alphabet streams; ordered pairs (neighbours, random, equal-variant pairs, all pairs of the hand-written shapes); before/same/after "
                    "derived from <, >, == on the implementation against the extracted reference procedure; pairs the reference does not accept are counted as outside its domain; "
                    "classes with a code-shaped model are also compared with the model (whose agreement with the reference is the theorem)",
               samples=samples, per_class=per_class, modelled_classes=sorted(modelled), model_impl_differences=len(diffs))
    return core.finish(ctx, proofs, cov, violations, known_seen,
                       assumptions=["theorems (model = reference) exist for deb, rpm, ebuild/alpine, the semver family, legacy openssl, gem, maven (maven.py is a port of the reference) and the openssl dispatch; "
                                    "alpm, nuget and conan are compared with their reference on generated pairs only; pypi's model is the PEP 440 reference itself, compared with the third-party `packaging` library"])
