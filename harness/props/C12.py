"""C12 — versions, constraints, ranges: hashable, hash agrees with ==, never mutated."""
import copy
import random

from harness import common, core, dense, gens, schemes, text, vers


def snap(o):
    """observable state of a version / constraint / range (or a list/tuple of them)"""
    if isinstance(o, (list, tuple)):
        return (type(o).__name__, tuple(snap(x) for x in o))
    try:
        h = hash(o)
    except Exception as e:  # noqa
        h = "unhashable:" + type(e).__name__
    d = []
    for k in ("string", "normalized_string", "comparator", "version_class"):
        if hasattr(o, k):
            d.append((k, repr(getattr(o, k))))
    if hasattr(o, "constraints"):
        d.append(("constraints", tuple(snap(c) for c in o.constraints)))
    if hasattr(o, "version") and not isinstance(getattr(o, "version"), str):
        d.append(("version", snap(o.version) if o.version is not None else None))
    if hasattr(o, "value"):
        v = o.value
        d.append(("value", (repr(v), str(v), tuple(sorted((k, repr(x)) for k, x in vars(v).items())) if hasattr(v, "__dict__") else None)))
    return (type(o).__name__, repr(o), str(o), h, tuple(d))


def run(ctx):
    proofs = core.check_props_file(ctx)
    ctx.say(f"proofs: {proofs['discharged']}/{proofs['obligations']} discharged" + ("" if proofs["ok"] else " -- NOT OK: " + str(proofs.get("error"))[-600:]))
    vc, vr, vs = vers.impl()
    import attr
    r = random.Random(ctx.seed)
    known = core.load_findings("C12")
    modelled = schemes.modelled(ctx)
    evals = 0
    diffs, violations, samples, known_seen = [], [], [], []
    nontrivial = set()
    per_class = {}

    def viol(what, **kw):
        violations.append(dict(kind="counterexample", stage="search", what=what, **kw))

    for k in known:
        if k.get("kind") != "finding":
            continue
        cls = getattr(vs, k["class"])
        for w in k.get("witnesses", []):
            try:
                a, b = cls(w["a"]), cls(w["b"])
                if a == b and hash(a) != hash(b) and k["text"] not in known_seen:
                    known_seen.append(k["text"])
            except Exception:
                pass
        if k["text"] not in known_seen:
            ctx.say("note: listed finding no longer reproduces on its witness:", k["id"])

    def known_for(name, a, b):
        for k in known:
            if k.get("class") == name and k.get("kind") == "finding" and k["text"] in known_seen:
                pred = k.get("predicate")
                if pred == "maven_list_vs_missing":
                    # the equality comes from a sub-list whose first item is empty facing a missing item
                    ca, cb = a.value._canonical(a.value._parsed), b.value._canonical(b.value._parsed)
                    if ca != cb:
                        return k
                else:
                    return k
        return None

    npairs = 1500 if ctx.tier == "quick" else 40000
    for cls in schemes.classes():
        name = cls.__name__
        if name not in gens.GEN_BY_CLASS:
            continue
        st = schemes.streams(r, cls, ctx.tier)
        values, seen = [], set()
        for k in ("near", "grammar", "small"):
            for s in st.get(k, []):
                if s not in seen:
                    seen.add(s)
                    stt, v = schemes.observe_ctor(cls, s)
                    if stt == "OK":
                        values.append(v)
        values = values[: (300 if ctx.tier == "quick" else 3000)]
        pairs = schemes.pairs_from(r, values, npairs) + gens.equal_variant_pairs(r, cls, values, npairs // 2)
        pairs += dense.pairs(r, cls, 6 if ctx.tier == "quick" else 60, 400 if ctx.tier == "quick" else 6000)   # same base, small variations (harness/dense.py)
        neq = nbad = 0
        rcls = vers.range_class_for(cls)
        for a, b in pairs:
            evals += 1
            try:
                e = a == b
                ha, hb = hash(a), hash(b)
            except Exception as ex:  # noqa
                viol(f"{name}: hashing or comparing {a.string!r} / {b.string!r} raised {ex!r}", inputs=dict(version_class=name, a=a.string, b=b.string))
                nbad += 1
                continue
            if not e:
                continue
            neq += 1
            if a.string != b.string:
                nontrivial.add((name, a.string, b.string))
            ok = ha == hb and len({a, b}) == 1 and (a in {b})
            if ok and a.string != b.string and neq % 5 == 0:
                # constraints and ranges built on equal versions
                for comp in (">=", "="):
                    ca, cb = vc.VersionConstraint(comparator=comp, version=a), vc.VersionConstraint(comparator=comp, version=b)
                    if (ca == cb) and hash(ca) != hash(cb):
                        ok = False
                    ra, rb = rcls(constraints=[ca]), rcls(constraints=[cb])
                    if (ra == rb) and hash(ra) != hash(rb):
                        ok = False
                    if not (ca == cb) or not (ra == rb):
                        ok = False
            if not ok:
                kf = known_for(name, a, b)
                if kf:
                    continue
                nbad += 1
                if nbad <= 3:
                    viol(f"{name}: {a.string!r} == {b.string!r} but hash/set/dict (of the versions or of constraints and ranges built on them) treat them as different",
                         inputs=dict(version_class=name, a=a.string, b=b.string), observed=dict(hash_a=ha, hash_b=hb, set_size=len({a, b})))
        # ---- the same version written with the digits of another script (implementation only: the models are ASCII)
        nscript = 0
        for v in values[: (60 if ctx.tier == "quick" else 600)]:
            for t in gens.digit_script_variants(v.string):
                try:
                    w = cls(t)
                    if not (w == v):
                        continue
                    hw, hv = hash(w), hash(v)
                except Exception:
                    continue
                evals += 1
                nscript += 1
                if hw != hv or len({w, v}) != 1:
                    if known_for(name, w, v):
                        continue
                    nbad += 1
                    if nbad <= 3:
                        viol(f"{name}: {w.string!r} == {v.string!r} (digits of another script) but their hashes differ",
                             inputs=dict(version_class=name, a=w.string, b=v.string), observed=dict(hash_a=hw, hash_b=hv))
        per_class[name] = dict(values=len(values), pairs=len(pairs), equal_pairs=neq, violating=nbad, modelled=name in modelled, other_script_equal_pairs=nscript)
        if name in modelled:
            nreq, d, _ = schemes.correspondence(ctx, cls, [], pairs[: (600 if ctx.tier == "quick" else 20000)])
            evals += nreq
            diffs.extend(d[:5])
        # ---- attributes cannot be reassigned
        if values:
            v = values[0]
            con = vc.VersionConstraint(comparator=">=", version=v)
            rng = rcls(constraints=[con])
            for obj, attrs_ in ((v, ("string", "value", "normalized_string")), (con, ("comparator", "version")), (rng, ("constraints",))):
                for an in attrs_:
                    evals += 1
                    try:
                        setattr(obj, an, None)
                        viol(f"{type(obj).__name__}.{an} can be reassigned", inputs=dict(version_class=name, attribute=an))
                    except attr.exceptions.FrozenInstanceError:
                        pass
                    except AttributeError:
                        pass
        # ---- every range can be hashed, whatever its shape (the star range too) and whatever collection it was built
        # from; it keeps nothing of the caller's list
        if values:
            shapes = [("*", [vc.VersionConstraint(comparator="*", version_class=cls)]),
                      ("one", [vc.VersionConstraint(comparator=">=", version=values[0])])]
            try:
                if len(values) >= 2 and (values[0] < values[-1] or values[-1] < values[0]):
                    shapes.append(("two", [vc.VersionConstraint(comparator="!=", version=values[0]), vc.VersionConstraint(comparator="!=", version=values[-1])]))
            except Exception:  # noqa
                pass
            for label, cons in shapes:
                evals += 1
                lst = list(cons)
                try:
                    a, b = rcls(constraints=lst), rcls(constraints=tuple(cons))
                    built = [a, b]
                    if label == "*" and vr.RANGE_CLASS_BY_SCHEMES.get(rcls.scheme) is rcls:
                        built.append(vr.VersionRange.from_string(f"vers:{rcls.scheme}/*"))
                    ok = all(x == a and hash(x) == hash(a) for x in built) and len(set(built)) == 1
                    shown = (str(a), repr(a), hash(a))
                    lst.append(lst[0])
                    lst.reverse()
                    del lst[0]
                    ok2 = (str(a), repr(a), hash(a)) == shown and a == b
                except Exception as e:  # noqa
                    viol(f"{rcls.__name__}: the range of shape {label!r} built from a list cannot be hashed or compared: {e!r}", inputs=dict(range_class=rcls.__name__, shape=label, constraints=[str(c) for c in cons]))
                    continue
                if not ok:
                    viol(f"{rcls.__name__}: the same range of shape {label!r} built from a list, a tuple or its text gives objects that are not equal with equal hashes",
                         inputs=dict(range_class=rcls.__name__, shape=label, constraints=[str(c) for c in cons]))
                elif not ok2:
                    viol(f"{rcls.__name__}: changing the list a range of shape {label!r} was built from changes the range", inputs=dict(range_class=rcls.__name__, shape=label, constraints=[str(c) for c in cons]))
        # ---- no public operation changes the observable state of its arguments
        for _ in range(15 if ctx.tier == "quick" else 300):
            if len(values) < 6:
                break
            vsn = r.sample(values, 5)
            try:
                if any(x == y for i, x in enumerate(vsn) for y in vsn[i + 1:]):
                    continue
                cons = [vc.VersionConstraint(comparator=vers.TEXT[r.choice(vers.OPS)], version=x) for x in vsn[:4]]
            except Exception:
                continue
            probe = vsn[4]
            rng = rcls(constraints=cons)
            lst = list(cons)
            args = [probe, rng, cons, tuple(cons)] + vsn
            before = [snap(x) for x in args]
            ops_done = []

            def attempt(label, f):
                ops_done.append(label)
                try:
                    f()
                except Exception:
                    pass
            attempt("compare", lambda: (probe < vsn[0], probe == vsn[0], probe >= vsn[1], sorted(vsn)))
            attempt("membership", lambda: (probe in rng, rng.contains(probe), probe in cons[0], probe.satisfies(cons[0]), vc.contains_version(probe, tuple(cons))))
            attempt("print", lambda: (str(rng), repr(rng), rng.to_dict(), str(cons[0]), cons[0].to_dict(), str(probe)))
            attempt("invert", lambda: (rng.invert(), cons[0].invert()))
            attempt("simplify", lambda: vc.VersionConstraint.simplify(tuple(cons)))
            attempt("simplify-list", lambda: vc.VersionConstraint.simplify(cons))
            attempt("validate", lambda: vc.VersionConstraint.validate(list(cons)))
            attempt("normalize", lambda: rng.normalize([x.string for x in vsn]))
            attempt("parse", lambda: vr.VersionRange.from_string(str(rng), simplify=True, validate=True))
            attempt("from_versions", lambda: type(rng).from_versions([x.string for x in vsn]))
            after = [snap(x) for x in args]
            evals += len(ops_done)
            for x, b_, a_ in zip(args, before, after):
                if b_ != a_:
                    viol(f"{name}: an argument changed observably during the public operations {ops_done}: {b_[1]} -> {a_[1]}",
                         inputs=dict(version_class=name, range=before[1][1], probe=probe.string), observed=str(a_)[:300], expected=str(b_)[:300])
                    break
        if values and len(samples) < 8:
            samples.append(dict(version_class=name, equal_pairs=neq, example=[values[0].string, hash(values[0])]))
    if not violations and (diffs or not proofs["ok"]):
        what = ("theorems of Props/C12.v no longer check: " + str(proofs.get("error"))[-400:]) if not proofs["ok"] else \
            ("model and implementation differ: " + str(diffs[0]))
        violations.append(dict(kind="no-failing-input-found", stage="proof" if not proofs["ok"] else "correspondence",
                               theorem_or_stream="Props/C12.v" if not proofs["ok"] else "hash/eq vs coq/Schemes models", what=what, diffs=diffs[:10]))
    cov = dict(evaluations=evals, distinct_nontrivial=len(nontrivial),
               rule="for every version class: neighbour, random and equal-variant pairs; whenever == holds the hashes, set and dict behaviour must agree, also for constraints and "
                    "ranges built on the two versions; attribute assignment attempted on every object kind; state snapshots (repr, str, hash, fields, value) of all arguments "
                    "before and after a battery of public operations; non-trivial = distinct pairs of equal versions with different spellings",
               samples=samples, per_class=per_class, modelled_classes=sorted(modelled), model_impl_differences=len(diffs))
    return core.finish(ctx, proofs, cov, violations, known_seen,
                       assumptions=["PARTIAL: object mutation is monitored at run time, not proved; scheme-level hash/eq theorems exist for generic and legacy openssl only"])
