"""C11 — version text round-trips and the validity predicate matches the constructor."""
import random
import re

from harness import common, core, gens, schemes, text, vers

NONASCII = ["１.２", "1.0²", "١.٢", "1.0 ", "1.0é", "α1", "1 .0", "１", "1.0-β1", "v１"]


def decorate(r, s):
    out = []
    for c in s:
        if r.random() < 0.2:
            # what str.split() removes: blanks, the ASCII controls FS GS RS US, and the Unicode spaces
            out.append(r.choice(" \t \n") if r.random() < 0.6 else r.choice(" \r\x0b\x0c\x1c\x1d\x1e\x1f\x85\xa0\u2003\u3000"))
        out.append(c)
    t = "".join(out)
    t = r.choice(["", " ", "  ", "\t"]) + t + r.choice(["", " ", "\n", "\xa0", "\u3000"])
    if r.random() < 0.5:
        t = r.choice(["v", "V"]) + t
    return t


def run(ctx):
    proofs = core.check_props_file(ctx)
    ctx.say(f"proofs: {proofs['discharged']}/{proofs['obligations']} discharged" + ("" if proofs["ok"] else " -- NOT OK: " + str(proofs.get("error"))[-600:]))
    vc, vr, vs = vers.impl()
    r = random.Random(ctx.seed)
    known = core.load_findings("C11")
    modelled = schemes.modelled(ctx)
    evals = 0
    diffs, violations, samples, known_seen = [], [], [], []
    nontrivial = set()
    per_class = {}

    for k in known:
        if k.get("kind") != "finding":
            continue
        cls = getattr(vs, k["class"])
        for w in k.get("witnesses", []):
            if w.get("kind") == "roundtrip":
                try:
                    a = cls(w["string"])
                    still = not (cls(str(a)) == a)
                except Exception:  # noqa
                    still = True
                if still and k["text"] not in known_seen:
                    known_seen.append(k["text"])
            elif schemes.observe_ctor(cls, w["string"])[0] != "OK" and k["text"] not in known_seen:
                known_seen.append(k["text"])
        if k["text"] not in known_seen:
            ctx.say("note: listed finding no longer reproduces on its witness:", k["id"])

    def report(name, what, inputs, key=None, **kw):
        for k in known:
            if k.get("kind") == "finding" and k.get("class") == name and k["text"] in known_seen and (k.get("key") is None or k.get("key") == key) \
                    and (k.get("string_regex") is None or re.search(k["string_regex"], inputs.get("string", ""))):
                return False
        violations.append(dict(kind="counterexample", stage="search", what=what, inputs=inputs, **kw))
        return True

    for cls in schemes.classes():
        name = cls.__name__
        st = schemes.streams(r, cls, ctx.tier)
        st["nonascii"] = NONASCII
        nbad = 0
        counts = {}
        for sname, strings in st.items():
            for s in strings:
                evals += 1
                # (1) validity check vs constructor
                try:
                    iv = cls.is_valid(cls.normalize(s))
                    iv_err = None
                except Exception as e:  # noqa
                    iv, iv_err = None, e
                status, v = schemes.observe_ctor(cls, s)
                counts[status] = counts.get(status, 0) + 1
                if iv_err is not None:
                    if nbad < 3 and report(name, f"{name}.is_valid(normalize({s!r})) raised {iv_err!r}", dict(version_class=name, string=s), key="is_valid-raises"):
                        nbad += 1
                    continue
                if bool(iv) != (status == "OK"):
                    if nbad < 3 and report(name, f"{name}: is_valid says {iv!r} but constructing {s!r} gives {status}", dict(version_class=name, string=s), key="valid-vs-ctor"):
                        nbad += 1
                    continue
                if status not in ("OK", "EInvalidVersion"):
                    if nbad < 3 and report(name, f"{name}({s!r}) raised {status} instead of InvalidVersion", dict(version_class=name, string=s), key="error-type"):
                        nbad += 1
                    continue
                if status != "OK":
                    if sname == "grammar":
                        if nbad < 3 and report(name, f"{name} rejects {s!r}, which follows the scheme's documented grammar", dict(version_class=name, string=s), key="grammar"):
                            nbad += 1
                    continue
                # (2) print, construct again: equal version, identical text
                try:
                    t = str(v)
                    v2 = cls(t)
                    ok = (v2 == v) and (str(v2) == t) and not (v2 != v)
                except Exception as e:  # noqa
                    ok, t = False, repr(e)
                if len(s) >= 3:
                    nontrivial.add((name, s))
                if not ok:
                    if nbad < 3 and report(name, f"{name}({s!r}) prints as {t!r}, which does not construct an equal version with the same text", dict(version_class=name, string=s), key="roundtrip", observed=t):
                        nbad += 1
                    continue
                # (3) whitespace and a leading v do not change the version obtained
                if all(ord(c) < 128 for c in s) and evals % 3 == 0:
                    d = decorate(r, s)
                    try:
                        v3 = cls(d)
                        ok3 = (v3 == v) and str(v3) == str(v)
                    except Exception as e:  # noqa
                        ok3 = False
                    if not ok3:
                        if nbad < 3 and report(name, f"{name}: {d!r} and {s!r} do not give the same version", dict(version_class=name, string=s, decorated=d), key="whitespace"):
                            nbad += 1
        per_class[name] = dict(strings=sum(len(x) for x in st.values()), outcomes=counts, violating=nbad, modelled=name in modelled)
        if name in modelled:
            allstr = [s for k, x in st.items() if k != "nonascii" for s in x]
            nreq, d, _ = schemes.correspondence(ctx, cls, allstr[: (1200 if ctx.tier == "quick" else 30000)], [])
            evals += nreq
            diffs.extend(d[:5])
        if len(samples) < 10 and st.get("grammar"):
            s = st["grammar"][0]
            samples.append(dict(version_class=name, string=s, outcome=schemes.observe_ctor(cls, s)[0]))
    if not violations and (diffs or not proofs["ok"]):
        what = ("theorems of Props/C11.v no longer check: " + str(proofs.get("error"))[-400:]) if not proofs["ok"] else \
            ("model and implementation differ: " + str(diffs[0]))
        violations.append(dict(kind="no-failing-input-found", stage="proof" if not proofs["ok"] else "correspondence",
                               theorem_or_stream="Props/C11.v" if not proofs["ok"] else "constructor/validity/printer vs coq/Schemes models", what=what, diffs=diffs[:10]))
    cov = dict(evaluations=evals, distinct_nontrivial=len(nontrivial),
               rule="for every version class: strings from the documented-grammar, near-pair, small-alphabet (exhaustive up to a token length) and malformed streams plus a non-ASCII side "
                    "stream; for each: is_valid(normalize(s)) vs constructor outcome, error type, acceptance of grammar strings, print/re-construct round trip, and whitespace / leading-v "
                    "invariance; for modelled classes the constructor outcome, printed text and validity answer are compared with the model; non-trivial = distinct accepted strings of length >= 3",
               samples=samples, per_class=per_class, modelled_classes=sorted(modelled), model_impl_differences=len(diffs))
    return core.finish(ctx, proofs, cov, violations, known_seen,
                       assumptions=["theorems cover the modelled classes; non-ASCII input is exercised on the implementation only (the models are ASCII)"])
