"""C02 — the six comparison operators agree with one another."""
import random

from harness import common, core, dense, gens, schemes, text, vers

COMPARATOR_EXPECT = {">=": lambda o: o[5], "<=": lambda o: o[3], "!=": lambda o: o[1], "<": lambda o: o[2], ">": lambda o: o[4], "=": lambda o: o[0]}


def laws(o):
    """o = six chars eq ne lt le gt ge"""
    eq, ne, lt, le, gt, ge = [c == "1" for c in o]
    bad = []
    if (lt + eq + gt) != 1:
        bad.append("exactly one of <, ==, > must hold")
    if le != (lt or eq):
        bad.append("<= must be (< or ==)")
    if ge != (gt or eq):
        bad.append(">= must be (> or ==)")
    if ne != (not eq):
        bad.append("!= must be (not ==)")
    return bad


def run(ctx):
    proofs = core.check_props_file(ctx)
    ctx.say(f"proofs: {proofs['discharged']}/{proofs['obligations']} discharged" + ("" if proofs["ok"] else " -- NOT OK: " + str(proofs.get("error"))[-600:]))
    vc, vr, vs = vers.impl()
    r = random.Random(ctx.seed)
    known = core.load_findings("C02")
    modelled = schemes.modelled(ctx)
    npairs = 1500 if ctx.tier == "quick" else 40000
    evals = 0
    diffs, violations, samples, known_seen = [], [], [], []
    nontrivial = set()
    per_class = {}
    for cls in schemes.classes():
        name = cls.__name__
        st = schemes.streams(r, cls, ctx.tier)
        values, seen = [], set()
        for k in ("near", "grammar", "small"):
            for s in st.get(k, []):
                if s in seen:
                    continue
                seen.add(s)
                stt, v = schemes.observe_ctor(cls, s)
                if stt == "OK":
                    values.append(v)
        if len(values) > (250 if ctx.tier == "quick" else 2500):
            values = values[: (250 if ctx.tier == "quick" else 2500)]
        pairs = schemes.pairs_from(r, values, npairs) + gens.equal_variant_pairs(r, cls, values, npairs // 3)
        # a base version against every spelling built from the words of the class's own source
        for b, x in gens.mined_pairs(r, cls, 80 if ctx.tier == "quick" else 400):
            try:
                vb, vx = cls(b), cls(x)
            except Exception:  # noqa
                continue
            pairs += [(vb, vx), (vx, vb)]
        pairs += dense.pairs(r, cls, 6 if ctx.tier == "quick" else 60, 400 if ctx.tier == "quick" else 6000)   # same base, small variations (harness/dense.py)
        nviol = 0
        for a, b in pairs:
            o = schemes.impl_pair(a, b)
            evals += 1
            if not o.startswith("OK"):
                what = f"{name}: comparing {a.string!r} with {b.string!r} raised {o}"
                violations.append(dict(kind="counterexample", stage="search", what=what, inputs=dict(version_class=name, a=a.string, b=b.string)))
                nviol += 1
                continue
            bits = o.split()[1]
            if a.string != b.string:
                nontrivial.add((name, a.string, b.string))
            bad = laws(bits)
            if not bad and (evals % 7 == 0):
                # the six vers comparators are implemented with these operators
                for comp, pick in COMPARATOR_EXPECT.items():
                    try:
                        got = a in vc.VersionConstraint(comparator=comp, version=b)
                    except Exception as e:  # noqa
                        got = repr(e)
                    if got is not (pick(bits) == "1"):
                        bad.append(f"constraint {comp}{b.string} answers {got} for {a.string}")
            if bad:
                nviol += 1
                kf = [k for k in known if k.get("class") == name and k.get("kind") == "finding"]
                if kf:
                    if kf[0]["text"] not in known_seen:
                        known_seen.append(kf[0]["text"])
                    continue
                if nviol <= 3:
                    violations.append(dict(kind="counterexample", stage="search",
                                           what=f"{name}: {a.string!r} vs {b.string!r}: == != < <= > >= answer {bits}: " + "; ".join(bad),
                                           inputs=dict(version_class=name, a=a.string, b=b.string), observed=bits))
        per_class[name] = dict(values=len(values), pairs=len(pairs), violating_pairs=nviol, modelled=name in modelled)
        if name in modelled:
            # the model is compared on the dense pairs (same base, small variations) first, then on the head of the other streams
            dpairs = dense.pairs(r, cls, 5 if ctx.tier == "quick" else 50, 500 if ctx.tier == "quick" else 8000)
            n, d, _ = schemes.correspondence(ctx, cls, [], dpairs + pairs[: (600 if ctx.tier == "quick" else 20000)])
            evals += n
            diffs.extend(d[:5])
        if len(samples) < 10 and pairs:
            a, b = pairs[len(pairs) // 2]
            samples.append(dict(version_class=name, a=a.string, b=b.string, ops=schemes.impl_pair(a, b)))
    if not violations and (diffs or not proofs["ok"]):
        what = ("theorems of Props/C02.v no longer check: " + str(proofs.get("error"))[-400:]) if not proofs["ok"] else \
            ("model and implementation differ: " + str(diffs[0]))
        violations.append(dict(kind="no-failing-input-found", stage="proof" if not proofs["ok"] else "correspondence",
                               theorem_or_stream="Props/C02.v" if not proofs["ok"] else "scheme operators vs coq/Schemes models", what=what, diffs=diffs[:10]))
    cov = dict(evaluations=evals, distinct_nontrivial=len(nontrivial),
               rule="for every version class: valid versions from the grammar, near-pair and small-alphabet streams; ordered pairs (all pairs when few, else neighbours + random); "
                    "the six operators and the six single-comparator constraints evaluated on the implementation against the agreement laws, and compared with the scheme model where "
                    "one exists; non-trivial = distinct ordered pairs of different texts",
               samples=samples, per_class=per_class, modelled_classes=sorted(modelled), model_impl_differences=len(diffs))
    return core.finish(ctx, proofs, cov, violations, known_seen,
                       assumptions=["theorems cover the modelled classes listed in coverage.modelled_classes; the other classes are checked on the implementation only"])
