"""C15 — advisory notations convert to exactly the constraints they state."""
import random

from harness import common, core, gens, schemes, text, vers


def clause_versions(r, cls, n):
    """version texts of the scheme that start with an alphanumeric and contain no separator"""
    out = []
    for v in gens.valid_pool(r, cls, n * 3):
        t = v.string
        if t and t[0].isalnum() and not any(c in t for c in ", |[]()<>=!~ \t") and t not in out:
            out.append(t)
        if len(out) >= n:
            break
    return out


# valid versions of some schemes that look like the shorthand of a neighbouring notation (x-ranges, wildcards)
LOOKALIKES = ["1.0.0-beta.x", "2.0.0-rc.X", "3.0.0+build.x", "1.2.3-0.x", "1.0.0-x", "1.2.x", "1.x", "1.0.0-alpha.*", "1.2.*", "1.0.0-beta.x.1", "x.1.2"]


def lookalikes(cls):
    out = []
    for t in LOOKALIKES:
        try:
            v = cls(t)
            if str(cls(str(v))) == str(v):
                out.append(t)
        except Exception:  # noqa
            pass
    return out


def sp(r):
    return r.choice(["", "", " ", "  "])


def run(ctx):
    proofs = core.check_props_file(ctx)
    ctx.say(f"proofs: {proofs['discharged']}/{proofs['obligations']} discharged" + ("" if proofs["ok"] else " -- NOT OK: " + str(proofs.get("error"))[-600:]))
    vc, vr, vs = vers.impl()
    r = random.Random(ctx.seed)
    nexpr = 60 if ctx.tier == "quick" else 1500
    evals = 0
    diffs, violations, samples = [], [], []
    nontrivial = set()
    spell_hist = {}

    def viol(what, **kw):
        if len(violations) < 40:
            violations.append(dict(kind="counterexample", stage="search", what=what, **kw))

    def expected_range(rcls, clauses):
        cons = [vc.VersionConstraint(comparator=c, version=rcls.version_class(v)) for c, v in clauses]
        return rcls(constraints=cons)

    def check(notation, scheme, rcls, expr, clauses, f):
        nonlocal evals
        evals += 1
        try:
            got = f()
        except Exception as e:  # noqa
            viol(f"{notation} ({scheme}): converting {expr!r} raised {e!r}; it states {clauses}", inputs=dict(notation=notation, scheme=scheme, expression=expr), expected=clauses)
            return
        want = expected_range(rcls, clauses)
        if len(clauses) >= 2:
            nontrivial.add((notation, scheme, str(expr)))
        same_as_vers = True
        try:
            txt = f"vers:{rcls.scheme}/" + "|".join(("" if c == "=" else c) + v for c, v in clauses)
            if vr.RANGE_CLASS_BY_SCHEMES.get(rcls.scheme) is rcls:
                same_as_vers = vr.VersionRange.from_string(txt) == got
        except Exception:
            same_as_vers = True  # e.g. repeated versions: from_string is not the oracle then
        ok = type(got) is rcls and got == want and sorted((c.comparator, str(c.version)) for c in got.constraints) == sorted((c.comparator, str(c.version)) for c in want.constraints)
        if not ok or not same_as_vers:
            viol(f"{notation} ({scheme}): {expr!r} converts to {got} but states {want}", inputs=dict(notation=notation, scheme=scheme, expression=expr), observed=str(got), expected=str(want))

    schemes_ = list(vr.RANGE_CLASS_BY_SCHEMES.items())
    for scheme, rcls in schemes_:
        vtexts = clause_versions(r, rcls.version_class, 12)
        if len(vtexts) < 4:
            continue
        # ---- fixed shapes: one clause (and a two-clause interval) over every version that looks like another notation's shorthand
        for v in lookalikes(rcls.version_class):
            for k, c in vr.vers_by_github_native_comparators.items():
                if c:
                    check("github", scheme, rcls, f"{k} {v}", [(c, v)], lambda: vr.build_range_from_github_advisory_constraint(scheme, f"{k} {v}"))
            for k, c in vr.vers_by_snyk_native_comparators.items():
                if c:
                    check("snyk-space", scheme, rcls, f"{k}{v}", [(c, v)], lambda: vr.build_range_from_snyk_advisory_string(scheme, f"{k}{v}"))
        for _ in range(nexpr):
            n = r.randint(1, 4)
            vt = r.sample(vtexts, min(n, len(vtexts)))
            # ---- GitHub: "<op> <version>, <op> <version>" as a string or a list of strings
            keys = [k for k, v in vr.vers_by_github_native_comparators.items() if v]
            cl = [(r.choice(keys), v) for v in vt]
            for k, _ in cl:
                spell_hist["github " + k] = spell_hist.get("github " + k, 0) + 1
            pieces = [sp(r) + k + sp(r) + v + sp(r) for k, v in cl]
            expr = r.choice([", ".join(pieces), ",".join(pieces), pieces, [", ".join(pieces[:1])] + pieces[1:]])
            check("github", scheme, rcls, expr, [(vr.vers_by_github_native_comparators[k], v) for k, v in cl],
                  lambda: vr.build_range_from_github_advisory_constraint(scheme, expr))
            # ---- Snyk, comma and space separated
            keys = [k for k, v in vr.vers_by_snyk_native_comparators.items() if v]
            cl = [(r.choice(keys), v) for v in vt]
            for k, _ in cl:
                spell_hist["snyk " + k] = spell_hist.get("snyk " + k, 0) + 1
            want = [(vr.vers_by_snyk_native_comparators[k], v) for k, v in cl]
            e1 = (", " if r.random() < 0.5 else ",").join(k + sp(r) + v for k, v in cl) if len(cl) > 1 else None
            if e1:
                check("snyk-comma", scheme, rcls, e1, want, lambda: vr.build_range_from_snyk_advisory_string(scheme, e1))
            e2 = " ".join(k + v for k, v in cl)
            check("snyk-space", scheme, rcls, e2, want, lambda: vr.build_range_from_snyk_advisory_string(scheme, r.choice([e2, [e2]])))
            # a list whose items use different notations: each item is split by its own separator
            if len(cl) >= 3:
                h = r.randint(1, len(cl) - 2)
                items = [", ".join(k + sp(r) + v for k, v in cl[:h + 1]), " ".join(k + v for k, v in cl[h + 1:])]
                if len(cl[:h + 1]) >= 2:
                    r.shuffle(items)
                    check("snyk-mixed-list", scheme, rcls, list(items), want, lambda: vr.build_range_from_snyk_advisory_string(scheme, list(items)))
            # ---- Snyk bracket intervals
            if len(vt) >= 2:
                a, b = vt[0], vt[1]
                ob, cb = r.choice("[("), r.choice("])")
                kind = r.random()
                if kind < 0.6:
                    e3, w3 = f"{ob}{a},{b}{cb}", [(">=" if ob == "[" else ">", a), ("<=" if cb == "]" else "<", b)]
                elif kind < 0.8:
                    e3, w3 = f"{ob},{b}{cb}", [("<=" if cb == "]" else "<", b)]
                else:
                    e3, w3 = f"{ob}{a},{cb}", [(">=" if ob == "[" else ">", a)]
                spell_hist["snyk " + ob + cb] = spell_hist.get("snyk " + ob + cb, 0) + 1
                check("snyk-bracket", scheme, rcls, e3, w3, lambda: vr.build_range_from_snyk_advisory_string(scheme, e3))
        if len(samples) < 8:
            samples.append(dict(scheme=scheme, github=", ".join(pieces), snyk=e2))
    # ---- GitLab, for the package types converted by the token walk
    for gscheme, purl in vr.PURL_TYPE_BY_GITLAB_SCHEME.items():
        rcls = vr.RANGE_CLASS_BY_SCHEMES[purl]
        if rcls in (vr.ConanVersionRange, vr.MavenVersionRange, vr.NugetVersionRange):
            continue
        table = rcls.vers_by_native_comparators
        keys = [k for k, v in table.items() if v]
        vtexts = clause_versions(r, rcls.version_class, 12)
        sep = "," if purl == "pypi" else " "
        for v in lookalikes(rcls.version_class):
            for k in keys:
                for e in (k + v, k + sep + v, k + v + "||" + k + vtexts[0]):
                    cl_ = [(table[k], v)] + ([(table[k], vtexts[0])] if "||" in e else [])
                    check(f"gitlab-{gscheme}", purl, rcls, e, cl_, lambda: vr.from_gitlab_native(gscheme, e))
        for _ in range(nexpr):
            n = r.randint(1, 4)
            vt = r.sample(vtexts, min(n, len(vtexts)))
            cl = [(r.choice(keys), v) for v in vt]
            for k, _ in cl:
                spell_hist[f"gitlab-{gscheme} " + k] = spell_hist.get(f"gitlab-{gscheme} " + k, 0) + 1
            alts, cur = [], []
            for k, v in cl:
                cur.append(k + v if r.random() < 0.6 else k + sep + v)   # attached or detached comparator
                if r.random() < 0.3:
                    alts.append(cur)
                    cur = []
            if cur:
                alts.append(cur)
            use_sep = sep
            if purl == "composer" and r.random() < 0.4:
                use_sep = ","
            if use_sep != sep:
                alts = [[p.replace(sep, use_sep) for p in a] for a in alts]
            expr = "||".join(use_sep.join(a) for a in alts)
            # the converter takes the GitLab name of the package type or the purl type itself
            gname = purl if (purl != gscheme and r.random() < 0.4) else gscheme
            check(f"gitlab-{gscheme}", purl, rcls, expr, [(table[k], v) for k, v in cl], lambda: vr.from_gitlab_native(gname, expr))
    # ---- model correspondence on the generic scheme
    G = text.ensure_generic_scheme()
    alph = "0123456789.abAB-+_"
    reqs, wants = [], []

    def gen_v():
        return r.choice("0123456789ab") + "".join(r.choice(alph) for _ in range(r.randint(0, 4)))

    ops_all = [">=", "<=", "!=", "<", ">", "=", "==", "", "~=", "=>", "<>", "!", "===", ">>", "<<"]
    for _ in range(400 if ctx.tier == "quick" else 8000):
        n = r.randint(1, 4)
        pieces = [sp(r) + r.choice(ops_all) + sp(r) + gen_v() + sp(r) for _ in range(n)]
        if r.random() < 0.15:
            pieces[r.randrange(n)] = r.choice(["", " ", ">=", "1.0 2.0", ",", "(1.0", "[1,2)"])
        e = r.choice([", ", ",", " ,", " "]).join(pieces)
        items = [e] if r.random() < 0.7 else pieces
        if n >= 3 and r.random() < 0.3:
            k0 = r.randint(2, n - 1)
            items = [", ".join(pieces[:k0]), " ".join(p.replace(" ", "") for p in pieces[k0:])]
            r.shuffle(items)
        for verb, f in (("adv_github", vr.build_range_from_github_advisory_constraint), ("adv_snyk", vr.build_range_from_snyk_advisory_string)):
            try:
                w = "OK " + text.gclist_text(f("zzgen", items if len(items) > 1 else items[0]).constraints)
            except Exception as ex:  # noqa
                w = "ERR " + vers.err_name(ex)
            reqs.append(f"{verb} " + ",".join(text.hx(i) for i in items) if all(items) else None)
            wants.append((w, items))
        if n >= 2 and r.random() < 0.5:
            ob, cb = r.choice("[("), r.choice("])")
            e3 = r.choice([f"{ob}{gen_v()},{gen_v()}{cb}", f"{ob},{gen_v()}{cb}", f"{ob}{gen_v()},{cb}", f"{ob}{gen_v()}{cb}", f"{gen_v()}{cb}{ob}{gen_v()}"])
            try:
                w = "OK " + text.gclist_text(vr.build_range_from_snyk_advisory_string("zzgen", e3).constraints)
            except Exception as ex:  # noqa
                w = "ERR " + vers.err_name(ex)
            reqs.append("adv_snyk " + text.hx(e3))
            wants.append((w, e3))
    # gitlab walk with generic versions: swap the registry entries for generic-version subclasses of the real range classes
    saved = {}
    try:
        for gscheme, purl in vr.PURL_TYPE_BY_GITLAB_SCHEME.items():
            rcls = vr.RANGE_CLASS_BY_SCHEMES[purl]
            if rcls in (vr.ConanVersionRange, vr.MavenVersionRange, vr.NugetVersionRange):
                continue
            saved[purl] = rcls
            vr.RANGE_CLASS_BY_SCHEMES[purl] = type("Gen" + rcls.__name__, (rcls,), {"version_class": vs.GenericVersion})
        for gscheme, purl in vr.PURL_TYPE_BY_GITLAB_SCHEME.items():
            if purl not in saved:
                continue
            tname = saved[purl].__name__
            for _ in range(120 if ctx.tier == "quick" else 2500):
                n = r.randint(1, 4)
                sep = "," if purl == "pypi" else " "
                toks = []
                for _ in range(n):
                    k = r.choice(ops_all)
                    toks.append(k + gen_v() if r.random() < 0.6 else k + sep + gen_v())
                if r.random() < 0.15:
                    toks.insert(r.randrange(len(toks) + 1), r.choice(["", ">=", "==", "~=", "<", "||"]))
                e = (r.choice(["||", sep, sep + sep])).join(toks)
                usesep = "," if (purl == "composer" and "," in e) else sep
                try:
                    w = "OK " + text.gclist_text(vr.from_gitlab_native(gscheme, e).constraints)
                except Exception as ex:  # noqa
                    w = "ERR " + vers.err_name(ex)
                reqs.append(f"adv_gitlab {tname} {text.hx(usesep)} {text.hx(e)}")
                wants.append((w, (gscheme, e)))
    finally:
        for purl, rcls in saved.items():
            vr.RANGE_CLASS_BY_SCHEMES[purl] = rcls
    pairs = [(q, w) for q, w in zip(reqs, wants) if q is not None]
    got = core.run_driver(ctx, [q for q, _ in pairs])
    evals += len(pairs)
    for (q, (w, src)), g in zip(pairs, got):
        if g != w:
            diffs.append(dict(request=q.split()[0], expression=src, model=g, impl=w))
    if not violations and (diffs or not proofs["ok"]):
        what = ("theorems of Props/C15.v no longer check: " + str(proofs.get("error"))[-400:]) if not proofs["ok"] else \
            ("model and implementation differ: " + str(diffs[0]))
        violations.append(dict(kind="no-failing-input-found", stage="proof" if not proofs["ok"] else "correspondence",
                               theorem_or_stream="Props/C15.v" if not proofs["ok"] else "advisory converters vs Native/Advisory.v", what=what, diffs=diffs[:10]))
    cov = dict(evaluations=evals, distinct_nontrivial=len(nontrivial),
               rule=f"{nexpr} generated expressions per scheme and notation: GitHub (string and list input), Snyk comma / space / bracket, GitLab for every package type converted by the token walk "
                    "(attached and detached comparators, '||' alternatives, the composer comma switch); every comparator spelling of each table that maps to a vers comparator, optional spaces, "
                    "1-4 clauses, versions from the scheme grammar; the result must equal the range of the stated pairs and from_string of the equivalent vers text; "
                    "the converters' models are compared with the implementation on generic-scheme expressions incl. malformed ones; non-trivial = distinct expressions with >=2 clauses",
               samples=samples, spelling_histogram=spell_hist, model_impl_differences=len(diffs))
    return core.finish(ctx, proofs, cov, violations, [], assumptions=["C11 of the scheme for the version texts; the Snyk and GitLab whole-expression statements are checked, not proved"])
