"""C13 — canonical vers form is independent of presentation and of the hash seed."""
import json
import os
import random
import re
import subprocess
import tempfile

from harness import common, core, dense, gens, text, vers

WORKLOAD = r'''
import json, sys
from univers.version_range import VersionRange
from univers.version_constraint import VersionConstraint
out = []
for t in json.load(open(sys.argv[1])):
    try:
        r = VersionRange.from_string(t)
        s1 = str(VersionRange.from_string(t, simplify=True))
        cs = VersionConstraint.simplify(list(r.constraints))
        s2 = str(type(r)(constraints=list(set(r.constraints))))
        out.append([str(r), s1, "|".join(map(str, cs)), s2])
    except Exception as e:
        out.append(["ERR", type(e).__name__])
print(json.dumps(out))
'''


# what str.split() removes: the ASCII controls FS GS RS US included, and the Unicode spaces
SPLIT_WS = " \t\n\r\x0b\x0c\x1c\x1d\x1e\x1f\x85\xa0\u2003\u3000"


MAVEN_DOC = re.compile(r"^\d+(\.\d+)*(-[a-z]+\d*)*$")     # the documented dash-qualifier grammar, as in C01's finding


def decorate(r, t):
    """a presentation variant of the vers text t: whitespace, case of 'vers:'/scheme, stray pipes, explicit '=', order"""
    head, body = t.split("/", 1)
    uri, sch = head.split(":", 1)
    parts = body.split("|")
    kinds = []
    if r.random() < 0.6 and parts != ["*"]:
        r.shuffle(parts)
        kinds.append("order")
    if r.random() < 0.5:
        parts = [("=" + p) if (p and p[0] not in "<>=!*" and r.random() < 0.7) else p for p in parts]
        kinds.append("explicit=")
    body = "|".join(parts)
    if r.random() < 0.4 and body != "*":
        body = "|" * r.randint(0, 2) + body + "|" * r.randint(0, 2)
        kinds.append("pipes")
    if r.random() < 0.5:
        uri = "".join(c.upper() if r.random() < 0.5 else c for c in uri)
        sch = "".join(c.upper() if r.random() < 0.5 else c for c in sch)
        kinds.append("case")
    s = f"{uri}:{sch}/{body}"
    if r.random() < 0.6:
        out = []
        for c in s:
            if r.random() < 0.15:
                out.append(r.choice(" \t  \n") if r.random() < 0.6 else r.choice(SPLIT_WS))
            out.append(c)
        s = "".join(out) + (" " if r.random() < 0.3 else "")
        kinds.append("whitespace")
    return s, kinds


def run(ctx):
    proofs = core.check_props_file(ctx)
    ctx.say(f"proofs: {proofs['discharged']}/{proofs['obligations']} discharged" + ("" if proofs["ok"] else " -- NOT OK: " + str(proofs.get("error"))[-600:]))
    vc, vr, vs = vers.impl()
    r = random.Random(ctx.seed)
    nper = 40 if ctx.tier == "quick" else 1200
    evals = 0
    diffs, violations, samples = [], [], []
    nontrivial = set()
    kind_hist = {}

    def viol(what, **kw):
        violations.append(dict(kind="counterexample", stage="search", what=what, **kw))

    # ---- conformance of the Python-string primitives the model relies on
    n, bad = text.pyprims_conformance(ctx, r, 200 if ctx.tier == "quick" else 3000)
    evals += n
    for q, g, w in bad[:5]:
        diffs.append(dict(what="Py/PyStr.v primitive differs from CPython", request=q, model=g, impl=w))
    # ---- decorated / permuted variants on every registered scheme
    workload = []
    classes = list(vr.RANGE_CLASS_BY_SCHEMES.values())
    for R in classes:
        s = vers.Scheme(r, R.version_class, 12)
        if not s.ok():
            continue
        s.lad = [v for v in s.lad if text.version_ok(v)]
        if len(s.lad) < 4:
            continue
        for k in range(nper):
            n = r.randint(1, 7)
            pat = vers.random_wf_pattern(r, n)
            if k % 5 == 0:  # also redundant / ill-formed lists with distinct versions: the text is still canonical
                pat = [(r.choice(vers.OPS), p) for _, p in pat]
            pos = sorted(r.sample(range(len(s.lad)), min(n, len(s.lad))))
            cons = [vc.VersionConstraint(comparator=vers.TEXT[o], version=s.lad[p]) for (o, _), p in zip(pat, pos)]
            if k % 23 == 0:
                cons = [vc.VersionConstraint(comparator="*", version_class=R.version_class)]
            base = R(constraints=cons)
            t = str(base)
            workload.append(t)
            # constraint collections in another order
            sh = list(cons)
            r.shuffle(sh)
            other = R(constraints=tuple(sh))
            evals += 1
            if not (other == base) or str(other) != t:
                viol(f"{R.scheme}: the same constraints in another order give {other} instead of {t}", inputs=dict(scheme=R.scheme, constraints=[str(c) for c in sh]), observed=str(other), expected=t)
            for _ in range(3):
                variant, kinds = decorate(r, t)
                for kd in kinds:
                    kind_hist[kd] = kind_hist.get(kd, 0) + 1
                evals += 1
                try:
                    got = vr.VersionRange.from_string(variant)
                except Exception as e:  # noqa
                    viol(f"{R.scheme}: the variant {variant!r} of {t!r} ({'+'.join(kinds)}) raises {e!r}", inputs=dict(text=variant, canonical=t, decorations=kinds))
                    continue
                if len(cons) >= 2 and kinds:
                    nontrivial.add(variant)
                if not (got == base) or str(got) != t:
                    viol(f"{R.scheme}: the variant {variant!r} ({'+'.join(kinds)}) gives {got} instead of {t}", inputs=dict(text=variant, canonical=t, decorations=kinds), observed=str(got), expected=t)
            if k % 17 == 0 and len(samples) < 8:
                samples.append(dict(canonical=t, variant=decorate(r, t)[0]))
    # ---- pools of near-equal versions (not pre-sorted by the implementation): the text must not depend on the order given
    for R in classes:
        pool = gens.near_pool(r, R.version_class, 60 if ctx.tier == "quick" else 600)
        pool = [v for v in pool if text.version_ok(v)]
        for k in range(nper):
            if len(pool) < 3:
                break
            n = r.randint(2, 4)
            # a base version together with its neighbours in the pool
            i = r.randrange(0, max(1, len(pool) - n))
            vsn = pool[i:i + n]
            try:
                if any(a == b for j, a in enumerate(vsn) for b in vsn[j + 1:]):
                    continue  # a repeated version: not a well-formed range
                cname = R.version_class.__name__
                if any(gens.order_excluded(cname, a, b) for j, a in enumerate(vsn) for b in vsn[j + 1:]):
                    continue  # the order itself is excluded there (C01): alpm pkgrel mixing, conan number-vs-word
                if cname == "MavenVersion" and len(vsn) >= 3 and not all(MAVEN_DOC.match(v.string.lower()) for v in vsn):
                    continue  # the listed finding of C01 (maven's order is not transitive outside the documented grammar): reported there
                cons = [vc.VersionConstraint(comparator=vers.TEXT[r.choice(vers.OPS)], version=v) for v in vsn]
                a = R(constraints=cons)
                b = R(constraints=tuple(reversed(cons)))
                sa, sb = str(a), str(b)
                pa, pb = str(vr.VersionRange.from_string(sa)), str(vr.VersionRange.from_string(f"vers:{R.scheme}/" + "|".join(reversed(sa.split("/", 1)[1].split("|")))))
            except Exception:
                continue
            evals += 1
            nontrivial.add(sa)
            if sa != sb or not (a == b) or pa != pb:
                viol(f"{R.scheme}: constraints over {[v.string for v in vsn]} print as {sa!r} or {sb!r} (parsed: {pa!r} / {pb!r}) depending on the order they are given in",
                     inputs=dict(scheme=R.scheme, constraints=[str(c) for c in cons]), observed=sb, expected=sa)
    # ---- model correspondence on the generic scheme: constraints text variants
    G = text.ensure_generic_scheme()
    reqs, wants = [], []
    alph = "0123456789.abAB-+~_"
    for _ in range(300 if ctx.tier == "quick" else 5000):
        n = r.randint(1, 5)
        parts = []
        for _ in range(n):
            vt = "".join(r.choice(alph) for _ in range(r.randint(1, 4)))
            parts.append(r.choice([">=", "<=", "!=", "<", ">", "=", "", "", " ", "="]) + vt)
        body = "|".join(parts)
        k = r.random()
        if k < 0.2:
            body = r.choice(["|", "||", " |"]) + body + r.choice(["", "|", "| "])
        elif k < 0.3:
            body = body.replace("|", "||", 1)
        elif k < 0.4:
            body = r.choice(["*", "*|1", "1|*", "* ", "**"])
        body = "".join((c + " ") if r.random() < 0.1 else c for c in body)
        fs, fv = r.random() < 0.3, r.random() < 0.3
        try:
            back = vr.VersionRange.from_string("vers:zzgen/" + body, simplify=fs, validate=fv)
            w = "OK " + text.gclist_text(back.constraints)
        except Exception as e:  # noqa
            w = "ERR " + vers.err_name(e)
        reqs.append(f"gparse {text.hx(body)} {int(fs)} {int(fv)}")
        wants.append((w, body))
    # header handling: scheme/uri case, unknown schemes, missing parts (with '*' so that no version class is involved)
    for _ in range(150 if ctx.tier == "quick" else 2000):
        sch = r.choice(list(vr.RANGE_CLASS_BY_SCHEMES) + ["nope", "", "NPM", "Deb", "n pm"])
        if sch == "zzgen":
            continue
        uri = r.choice(["vers", "VERS", "Vers", "ver", "vers ", "", "purl"])
        s = r.choice(["{u}:{s}/*", "{u}:{s}/", "{u}:{s}", "{u}{s}/*", " {u} : {s} / * ", "{u}:{s}/*|", "{u}::{s}/*", "{u}:{s}//*"]).format(u=uri, s=sch)
        if r.random() < 0.3:
            s = "".join(c.upper() if r.random() < 0.4 else c for c in s)
        try:
            back = vr.VersionRange.from_string(s)
            w = f"OK {type(back).__name__} {text.gclist_text(back.constraints) if back.constraints and back.constraints[0].comparator == '*' else '?'}"
        except Exception as e:  # noqa
            w = "ERR " + vers.err_name(e)
        reqs.append(f"fromstring {text.hx(s)} 0 0")
        wants.append((w, s))
    got = core.run_driver(ctx, reqs)
    evals += len(reqs)
    for q, g, (w, d) in zip(reqs, got, wants):
        if q.startswith("fromstring") and g.startswith("OK") and not g.endswith(" *"):
            continue  # a version text reached the scheme's version class, which the generic model does not have
        if g != w and not (q.startswith("fromstring") and g.startswith("ERR") and w.startswith("ERR EInvalidVersion")):
            diffs.append(dict(request=q, text=d, model=g, impl=w))
    # ---- hash seed: the same workload in fresh interpreters under different PYTHONHASHSEED values
    seeds = [0, 1, 2, 3] + [r.randrange(1, 2 ** 31) for _ in range(3 if ctx.tier == "quick" else 36)]
    with tempfile.TemporaryDirectory(prefix="c13_") as td:
        wl = os.path.join(td, "workload.json")
        # add redundant ranges (simplification has real work to do) built from the canonical texts
        extra = []
        for t in workload[:: max(1, len(workload) // 150)]:
            head, body = t.split("/", 1)
            parts = body.split("|")
            if parts != ["*"]:
                extra.append(head + "/" + "|".join(parts + parts[:2]))
        # ranges holding two or three spellings of one version (dense families): which spelling survives simplification
        # and the order of the tied constraints must not depend on the hash seed either
        for cname in sorted(n_ for n_ in gens.GEN_BY_CLASS if hasattr(vs, n_)):
            cls = getattr(vs, cname)
            rcls = vers.range_class_for(cls)
            if rcls is None or vr.RANGE_CLASS_BY_SCHEMES.get(rcls.scheme) is not rcls:
                continue
            k = 0
            for fam in dense.families(r, cls, 2):
                same = [x for x in fam[1:] if x.string != fam[0].string and text.version_text_ok(x.string) and dense.rel(fam[0], x) == "eq"]
                if not same or not text.version_text_ok(fam[0].string) or k >= 10:
                    continue
                k += 1
                sp = [fam[0].string] + [x.string for x in same[:2]]
                extra.append(f"vers:{rcls.scheme}/" + "|".join(sp))
                extra.append(f"vers:{rcls.scheme}/" + "|".join("!=" + t for t in reversed(sp)))
        json.dump(workload[:: max(1, len(workload) // 300)] + extra, open(wl, "w"))
        script = os.path.join(td, "w.py")
        open(script, "w").write(WORKLOAD)
        outs = {}
        for sd in seeds:
            env = common.impl_env()
            env["PYTHONHASHSEED"] = str(sd)
            p = subprocess.run([common.PY, script, wl], capture_output=True, text=True, env=env, timeout=600)
            outs[sd] = p.stdout if p.returncode == 0 else "CRASH " + p.stderr[-300:]
            evals += 1
        ref = outs[seeds[0]]
        for sd, o in outs.items():
            if o != ref:
                a, b = (json.loads(ref), json.loads(o)) if not (ref.startswith("CRASH") or o.startswith("CRASH")) else ([ref], [o])
                idx = next((i for i in range(min(len(a), len(b))) if a[i] != b[i]), 0)
                viol(f"canonical text depends on the hash seed: PYTHONHASHSEED={seeds[0]} gives {a[idx]} but PYTHONHASHSEED={sd} gives {b[idx]}",
                     inputs=dict(seeds=[seeds[0], sd], workload_item=json.load(open(wl))[idx] if idx < len(a) else None), observed=b[idx], expected=a[idx])
                break
    # ---- the same statement on dense families of versions (one edit apart, equal under another spelling): harness/dense.py
    dense_ev, dense_per = dense.run(ctx, "C13", r, lambda what, **kw: violations.append(dict(kind="counterexample", stage="search", what=what, **kw)))
    evals += dense_ev
    # ---- a list of native items in any order: maven / nuget bracket items, deb / rpm relations
    for rname, mk in (("MavenVersionRange", lambda a, b, c, d, e: [f"[{a},{b})", f"[{c},{d}]", f"[{e}]"]),
                      ("NugetVersionRange", lambda a, b, c, d, e: [f"[{a},{b})", f"[{c},{d}]", f"[{e}]"]),
                      ("DebianVersionRange", lambda a, b, c, d, e: [f">= {a}", f"<< {b}", f"= {e}"]),
                      ("RpmVersionRange", lambda a, b, c, d, e: [f">= {a}", f"< {b}", f"= {e}"])):
        rcls = getattr(vr, rname)
        sch = vers.Scheme(r, rcls.version_class, 12)
        if not sch.ok():
            continue
        for _ in range(6 if ctx.tier == "quick" else 80):
            pos = sorted(r.sample(range(12), 5))
            txt = [sch.lad[p].string for p in pos]
            if any(ch in t for t in txt for ch in "[](), "):
                continue
            items = mk(*txt)
            try:
                base = rcls.from_natives(list(items))
            except Exception:  # noqa
                continue            # the scheme's own parser refuses the ascending list: not this check's business
            for _k in range(3):
                perm = list(items)
                r.shuffle(perm)
                evals += 1
                try:
                    got = rcls.from_natives(perm)
                    same = got == base and str(got) == str(base)
                except Exception as e:  # noqa
                    got, same = repr(e), False
                if not same:
                    viol(f"{rname}: from_natives({perm}) gives {got}, from_natives({items}) gives {base}", inputs=dict(range_class=rname, natives=perm, ascending=items))
                    break
    if not violations and (diffs or not proofs["ok"]):
        what = ("theorems of Props/C13.v no longer check: " + str(proofs.get("error"))[-400:]) if not proofs["ok"] else \
            ("model and implementation differ: " + str(diffs[0]))
        violations.append(dict(kind="no-failing-input-found", stage="proof" if not proofs["ok"] else "correspondence",
                               theorem_or_stream="Props/C13.v" if not proofs["ok"] else "from_string on the generic scheme / string primitives", what=what, diffs=diffs[:10]))
    cov = dict(evaluations=evals, dense_pairs=dense_per, distinct_nontrivial=len(nontrivial),
               rule=f"for each registered scheme {nper} ranges (well-formed, plus one in five with arbitrary comparators; versions from the scheme grammar), each rebuilt from a "
                    "shuffled tuple and parsed from 3 decorated variants of its text (order, explicit '=', stray pipes, letter case of vers:/scheme, whitespace anywhere): equal "
                    "range and identical canonical text required; from_string of the model vs the implementation on generic-scheme texts and on header variants; the same "
                    f"workload (parse, simplify, set-rebuild, print) run under {len(seeds)} PYTHONHASHSEED values in fresh interpreters; non-trivial = distinct decorated variants of ranges with >=2 constraints",
               samples=samples, decoration_histogram=kind_hist, hash_seeds=seeds, model_impl_differences=len(diffs))
    return core.finish(ctx, proofs, cov, violations, [], assumptions=["C01/C02/C12 of the scheme; set iteration order is modelled as an arbitrary permutation"])
