"""C09 — inverting a range yields its complement, and inverting twice yields the original."""
import random

from harness import common, core, dense, vers


def run(ctx):
    proofs = core.check_props_file(ctx)
    ctx.say(f"proofs: {proofs['discharged']}/{proofs['obligations']} discharged" + ("" if proofs["ok"] else " -- NOT OK: " + str(proofs.get("error"))[-600:]))
    vc, vr, vs = vers.impl()
    r = random.Random(ctx.seed)
    N = 4 if ctx.tier == "quick" else 6
    maxlen = 10
    cases = []
    for n in range(1, N + 1):
        cases.extend(vers.all_patterns(n))
    n_exh = len(cases)
    for _ in range(400 if ctx.tier == "quick" else 6000):
        n = r.randint(N + 1, maxlen)
        pat = vers.random_wf_pattern(r, n)
        if r.random() < 0.2:
            i = r.randrange(n)
            pat[i] = (r.choice(vers.OPS), pat[i][1])
        cases.append(pat)
    texts = [vers.clist_text(p) for p in cases]
    reqs = []
    for t in texts:
        reqs += [f"wf {t}", f"nonvacuous {t}", f"invert {t}"]
    model = dict(zip(reqs, core.run_driver(ctx, reqs)))
    good = [i for i, t in enumerate(texts) if model[f"wf {t}"] == "OK true" and model[f"nonvacuous {t}"] == "OK true"]
    reqs2 = []
    for i in good:
        t = texts[i]
        for p in range(1, 2 * len(cases[i]) + 2):
            reqs2.append(f"den {t} {p}")
    model.update(zip(reqs2, core.run_driver(ctx, reqs2)))
    L = 2 * maxlen + 2
    schemes = vers.pick_schemes(r, L, want=4 if ctx.tier == "quick" else 7, always=("SemverVersion", "PypiVersion", "MavenVersion"))
    ctx.say("schemes:", [s.name for s in schemes], "well-formed non-vacuous patterns:", len(good), "of", len(cases))
    evals = 0
    diffs, violations, samples = [], [], []
    nontrivial = set()
    goodset = set(good)

    def viol(what, **kw):
        violations.append(dict(kind="counterexample", stage="search", what=what, **kw))

    for s in schemes:
        rcls = vers.range_class_for(s.cls)
        aliases = {p: vers.alias(s.version(p)) for p in range(len(s.lad))}
        # single constraints and star
        for o in vers.OPS:
            c = s.constraint((o, 2))
            ic = c.invert()
            for p in (1, 2, 3, -2):
                v = s.version(abs(p)) if p > 0 else aliases.get(2)
                if v is None:
                    continue
                evals += 1
                if (v in ic) == (v in c):
                    viol(f"{s.name}: inverting the single constraint {c} does not flip membership of {v.string!r}", inputs=dict(scheme=s.name, constraint=str(c), version=v.string))
        star = vc.VersionConstraint(comparator="*", version_class=s.cls)
        if star.invert() is not None or rcls(constraints=[star]).invert() is not None:
            viol(f"{s.name}: the '*' range has an inverse", inputs=dict(scheme=s.name))
        for ci, pat in enumerate(cases):
            t = texts[ci]
            cons = s.constraints(pat)
            sh = list(cons)
            r.shuffle(sh)
            try:
                rng = rcls(constraints=sh)
                inv = rng.invert()
                got = "OK " + vers.clist_text(s.back(inv.constraints))
            except Exception as e:  # noqa
                got = "ERR " + vers.err_name(e)
                inv = None
            evals += 1
            m = model[f"invert {t}"]
            if got != m:
                diffs.append(dict(scheme=s.name, range="|".join(str(c) for c in cons), model=m, impl=got))
            if ci in goodset:
                nontrivial.add(t)
                if inv is None:
                    viol(f"{s.name}: inverting {rng} raised {got}", inputs=dict(scheme=s.name, constraints=[str(c) for c in cons]))
                    continue
                okv = vers.res_bool(lambda: vc.VersionConstraint.validate(list(inv.constraints)))
                if okv != "OK true":
                    viol(f"{s.name}: the inverse {inv} of {rng} is not well-formed: validate -> {okv}", inputs=dict(scheme=s.name, constraints=[str(c) for c in cons]))
                back = vers.res_bool(lambda: inv.invert() == rng and str(inv.invert()) == str(rng))
                if back != "OK true":
                    viol(f"{s.name}: inverting {rng} twice does not give it back ({back})", inputs=dict(scheme=s.name, constraints=[str(c) for c in cons]))
                n = len(pat)
                for p0 in list(range(1, 2 * n + 2)) + [-q for q in range(2, 2 * n + 1, 2)]:
                    p = abs(p0)
                    v = s.version(p) if p0 > 0 else aliases.get(p)
                    if v is None:
                        continue
                    a = vers.res_bool(lambda: v in rng)
                    b = vers.res_bool(lambda: v in inv)
                    evals += 2
                    d = model[f"den {t} {p}"]
                    want_b = "OK false" if d == "OK true" else "OK true"
                    if a != d or b != want_b:
                        viol(f"{s.name}: {v.string!r} in {rng} -> {a}, in its inverse {inv} -> {b}; expected {d} and {want_b}",
                             inputs=dict(scheme=s.name, constraints=[str(c) for c in cons], version=v.string), observed=[a, b], expected=[d, want_b])
            if ci % 499 == 0 and len(samples) < 8 and inv is not None:
                samples.append(dict(scheme=s.name, range=str(rng), inverse=str(inv), nonvacuous_wf=ci in goodset))
    # ---- the same constraint texts in several schemes, interleaved in one process: nothing may leak from one scheme to another
    shared = [f"{i}.0.0" for i in range(1, 10)]
    sch = [k for k in ("npm", "pypi", "gem", "maven", "nuget", "deb", "rpm", "golang", "conan", "generic") if k in vr.RANGE_CLASS_BY_SCHEMES]
    pats = [cases[ci] for ci in good if cases[ci] and max(p for _, p in cases[ci] if p is not None) // 1 <= 8][: (40 if ctx.tier == "quick" else 400)]
    for pat in pats:
        body = "|".join(vers.TEXT[o] + shared[p - 1] if o != "EQ" else shared[p - 1] for o, p in pat if o != "*")
        if not body:
            continue
        for k in sch:
            rcls_k = vr.RANGE_CLASS_BY_SCHEMES[k]
            try:
                rng = vr.VersionRange.from_string(f"vers:{k}/{body}")
                inv = rng.invert()
                twice = inv.invert()
                flips = all((rcls_k.version_class(t) in rng) != (rcls_k.version_class(t) in inv) for t in shared)
                okk = flips and twice == rng and all(isinstance(c.version, rcls_k.version_class) for c in inv.constraints)
            except Exception as e:  # noqa
                okk = False
                flips = repr(e)
            evals += 1
            if not okk:
                viol(f"{k}: inverting vers:{k}/{body} after the same text was inverted in other schemes: complement/involution/version class fail ({flips})",
                     inputs=dict(scheme=k, text=f"vers:{k}/{body}", order=sch))
                break
    # ---- the same statement on dense families of versions (one edit apart, equal under another spelling): harness/dense.py
    dense_ev, dense_per = dense.run(ctx, "C09", r, lambda what, **kw: violations.append(dict(kind="counterexample", stage="search", what=what, **kw)))
    evals += dense_ev
    if not violations and (diffs or not proofs["ok"]):
        what = ("theorems of Props/C09.v no longer check: " + str(proofs.get("error"))[-400:]) if not proofs["ok"] else \
            ("model and implementation differ: " + str(diffs[0]))
        violations.append(dict(kind="no-failing-input-found", stage="proof" if not proofs["ok"] else "correspondence",
                               theorem_or_stream="Props/C09.v" if not proofs["ok"] else "VersionRange.invert vs Model.invert", what=what, diffs=diffs[:10]))
    cov = dict(evaluations=evals, dense_pairs=dense_per, distinct_nontrivial=len(nontrivial),
               rule=f"all 6^n comparator patterns 1<=n<={N} in version order (built shuffled) plus random longer ones; invert() compared with the model on all of them; "
                    "on the well-formed non-vacuous ones (decided by the Coq spec): inverse validates, membership flips at every probe position (at/between/around, and under "
                    "alternative spellings of equal versions), double inversion gives back an equal range; 6 single comparators x 3 positions; star has no inverse; "
                    "non-trivial = distinct well-formed non-vacuous patterns",
               samples=samples, exhaustive=True, exhaustive_scope=f"patterns of length <= {N}", patterns=len(cases), exhaustive_patterns=n_exh,
               wellformed_nonvacuous=len(good), schemes=[s.name for s in schemes], model_impl_differences=len(diffs))
    return core.finish(ctx, proofs, cov, violations, [],
                       assumptions=["the scheme's comparison is a total preorder and its operators agree with it (C01, C02)", "the empty constraint list is not a vers range"])
