"""Shared machinery for the vers-algebra properties (C04 C07 C08 C09 C10 C13 C17):
patterns over integer positions <-> real constraints of a scheme."""
import itertools
import random

from harness import common, gens

OPS = ["GE", "LE", "NE", "LT", "GT", "EQ"]
TEXT = {"GE": ">=", "LE": "<=", "NE": "!=", "LT": "<", "GT": ">", "EQ": "=", "*": "*"}
NAME = {v: k for k, v in TEXT.items()}


def impl():
    common.setup_impl_path()
    import univers.version_constraint as vc
    import univers.version_range as vr
    import univers.versions as vs

    return vc, vr, vs


def clist_text(pattern):
    """pattern = list of (opname, pos) or ('*', None)"""
    if not pattern:
        return "-"
    return ",".join("*" if o == "*" else f"{o}:{p}" for o, p in pattern)


def parse_clist(text):
    if text == "-":
        return []
    out = []
    for it in text.split(","):
        if it == "*":
            out.append(("*", None))
        else:
            o, p = it.split(":")
            out.append((o, int(p)))
    return out


def all_patterns(n, ops=OPS):
    """all comparator sequences of length n at positions 2,4,..,2n"""
    for combo in itertools.product(ops, repeat=n):
        yield [(o, 2 * (i + 1)) for i, o in enumerate(combo)]


def random_wf_pattern(r, n):
    """a random well-formed pattern with n constraints at positions 2..2n"""
    out = []
    state = r.choice(["out", "in"]) if n else "out"  # 'in' = an upper bound is expected (we are inside an interval from -inf)
    # state machine over version order: out -> (EQ|NE|lower) ; in -> (NE|upper)
    last_non_ne = None
    for i in range(n):
        pos = 2 * (i + 1)
        if state == "in":
            k = r.random()
            if k < 0.35 or (last_non_ne == "EQ"):
                # an "=" may not be directly followed by an upper bound: insert NE instead
                if last_non_ne == "EQ":
                    o = "NE"
                else:
                    o = r.choice(["LT", "LE"])
                    state = "out"
            else:
                o = "NE"
            # inside an interval only NE or the closing upper bound are allowed
        else:
            k = r.random()
            if k < 0.35:
                o = r.choice(["GT", "GE"])
                state = "in"
            elif k < 0.7:
                o = "EQ"
            else:
                o = "NE"
        if o != "NE":
            last_non_ne = o
        out.append((o, pos))
    return out


class Scheme:
    """A version class of /repo with a ladder: ladder[p] is the version at position p."""

    def __init__(self, r, cls, length):
        self.cls = cls
        self.name = cls.__name__
        self.lad = gens.ladder(r, cls, length)

    def ok(self):
        return self.lad is not None

    def version(self, pos):
        return self.lad[pos]

    def constraint(self, item):
        vc, vr, vs = impl()
        o, p = item
        if o == "*":
            return vc.VersionConstraint(comparator="*", version_class=self.cls)
        return vc.VersionConstraint(comparator=TEXT[o], version=self.lad[p])

    def constraints(self, pattern):
        return [self.constraint(it) for it in pattern]

    def back(self, constraints):
        """real constraints -> pattern text (positions found by identity/equality in the ladder)"""
        out = []
        for c in constraints:
            if c.comparator == "*":
                out.append(("*", None))
            else:
                pos = None
                for i, v in enumerate(self.lad):
                    if v is c.version or (v.string == c.version.string):
                        pos = i
                        break
                if pos is None:
                    for i, v in enumerate(self.lad):
                        if v == c.version and not (v < c.version) and not (c.version < v):
                            pos = i
                            break
                out.append((NAME[c.comparator], pos))
        return out


def range_class_for(cls):
    """a VersionRange subclass of /repo whose version_class is cls (or a fresh subclass)"""
    vc, vr, vs = impl()
    for k, v in vr.RANGE_CLASS_BY_SCHEMES.items():
        if v.version_class is cls:
            return v
    for v in vars(vr).values():
        if isinstance(v, type) and issubclass(v, vr.VersionRange) and v.version_class is cls:
            return v
    return type("Tmp%sRange" % cls.__name__, (vr.VersionRange,), {"scheme": "tmp", "version_class": cls})


def err_name(e):
    """exception -> the small error enum of coq/Base/Res.v"""
    vc, vr, vs = impl()
    if isinstance(e, vs.InvalidVersion):
        return "EInvalidVersion"
    if isinstance(e, vc.InvalidConstraintsError):
        return "EInvalidConstraints"
    if isinstance(e, vr.InvalidVersionRange):
        return "EInvalidRange"
    if isinstance(e, ValueError):
        return "EValue"
    if isinstance(e, TypeError):
        return "EType"
    if isinstance(e, IndexError):
        return "EIndex"
    if isinstance(e, KeyError):
        return "EKey"
    if isinstance(e, AttributeError):
        return "EAttr"
    if isinstance(e, UnboundLocalError):
        return "EUnbound"
    if isinstance(e, AssertionError):
        return "EAssert"
    if isinstance(e, RecursionError):
        return "ERecursion"
    return "EOther"


def res_bool(f):
    try:
        r = f()
    except Exception as e:  # noqa
        return "ERR " + err_name(e)
    if r is True:
        return "OK true"
    if r is False:
        return "OK false"
    return "OK?" + repr(r)


def pick_schemes(r, length, want=3, always=("SemverVersion",)):
    """version classes to instantiate the algebra on: fixed ones + rotating ones"""
    vc, vr, vs = impl()
    names = [c.__name__ for c in vars(vs).values() if isinstance(c, type) and issubclass(c, vs.Version)
             and c.__module__ == vs.__name__ and c.__name__ in gens.GEN_BY_CLASS and c is not vs.Version]
    names = sorted(set(names))
    chosen = [n for n in always if n in names]
    rest = [n for n in names if n not in chosen]
    r.shuffle(rest)
    out = []
    for n in chosen + rest:
        s = Scheme(r, getattr(vs, n), length)
        if s.ok():
            out.append(s)
        if len(out) >= want:
            break
    return out


def alias(v, need_hash=False):
    """an equal version of the same class with a different spelling, where the scheme has one"""
    cls = type(v)
    t = v.string
    cands = [t + ".0", "0:" + t, t + "-0", t + "+b7", t + ".0.0", t.replace(".", ".0", 1), "v" + t, t + "-r0", t.upper(), t + "_p0"]
    for c in cands:
        try:
            w = cls(c)
            if w == v and v == w and not (w < v) and not (v < w) and str(w) != str(v):
                if need_hash and hash(w) != hash(v):
                    continue
                return w
        except Exception:
            continue
    return None
