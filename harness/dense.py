"""Dense families of versions, and the range-level properties stated directly on one- and two-constraint ranges over them.

The checks of the range algebra (C04 ... C10, C13) instantiate constraint patterns on ladders of well-separated versions
of each scheme.  A slip in a scheme (an operator that disagrees with the others on versions one edit apart, a hash that
separates equal spellings, a printer that drops a part) does not show there: the ladder builder needs a consistent
order and skips what it cannot order.  The streams here put the statements of the same properties on versions that ARE
close: every number zero-padded, every suffix of the scheme's dictionary on the same base, component ladders, case
variants, empty trailing parts, single edits and source-mined words.  Only the primitive `==`, `<`, `>` of the version
class are used to say what the answer must be."""
import itertools
import re

from harness import core, gens, text, vers


PLAIN = ["1", "1.0", "2.36.1", "0.9", "10", "2.36-1", "1:2.3-1"]


def family_texts(cls, t):
    """(kind, texts): small variations of the version text t"""
    fams = []
    nums = list(re.finditer(r"\d+", t))
    fams.append(("zero-padding", [t] + [t[:m.start()] + z + m.group() + t[m.end():] for m in nums for z in ("0", "00")]))
    fams.append(("components", [t, t + ".1", t + ".1.2", t + ".1.2.3", t + ".0", t + ".0.0", t + ".1.2.3.4"]))
    sfx = list(gens.SUFFIX_DICT.get(cls.__name__, []))
    fams.append(("suffixes", [t] + [t + x for x in sfx]))
    seps = [i for i, c in enumerate(t) if c in ".-_+~:"][:4]
    fams.append(("separators", list(dict.fromkeys([t] + [t[:i] + c + t[i + 1:] for i in seps for c in ".-_+~:"]))))
    # a letter run glued to a number against a longer run with the same beginning (rpm and alpm compare maximal runs)
    fams.append(("letter-runs", [t + "b1", t + "beta1", t + "ba1", t + ".b1", t + "b.1", t + "b", t + "B1", t + "b01"]))
    runs = list(re.finditer(r"[A-Za-z]+", t))[:2]
    if runs:
        fams.append(("letter-runs-in-place", list(dict.fromkeys([t] + [t[:m.start()] + w + t[m.end():] for m in runs
                                                                     for w in (m.group()[:1], m.group() + "a", m.group() + m.group(), m.group()[:-1] or "x")]))))
    fams.append(("case", list(dict.fromkeys([t, t.upper(), t.lower(), t.capitalize(), t.swapcase()]))))
    fams.append(("decorations", [t, t + "-", t + "-0", "0:" + t, "00:" + t, t + "+", t + ".", t + "~", t + "-0-0", t + "-1-", "1:" + t, ":" + t, t + "_", "+" + t, t + "%2B1", t + "%7E1", t + "%41"]))
    return fams


def families(r, cls, nbase, with_kind=False):
    """lists of version objects of cls that belong together (same base, small variations); the plain dotted numbers
    (the most common versions, and the ones fast paths are written for) come first, then bases of the class's grammar"""
    out = []
    bases = []
    for t in PLAIN:
        try:
            bases.append(cls(t))
        except Exception:  # noqa
            pass
    bases += gens.valid_pool(r, cls, nbase)
    mined = gens.mined_suffixes(cls)
    for bi, v in enumerate(bases):
        for kind, fam in family_texts(cls, v.string):
            objs, seen = [], set()
            for s in fam:
                if s in seen:
                    continue
                seen.add(s)
                try:
                    objs.append(cls(s))
                except Exception:  # noqa
                    continue
            if len(objs) >= 2:
                out.append((bi, kind, objs))
        near = [v] + gens.neighbours(r, cls, v.string, k=4)
        if mined:
            for _ in range(3):
                try:
                    near.append(cls(v.string + mined[r.randrange(len(mined))]))
                except Exception:  # noqa
                    pass
        if len(near) >= 2:
            out.append((bi, "neighbours", near))
    return out if with_kind else [o for _, _, o in out]


def pairs(r, cls, nbase, cap):
    """always kept: the base of every family against each of its variations, both ways round, and - for the first two
    bases - every two suffixes of the scheme's dictionary against one another; then other variations against one another
    (shuffled, up to cap in all)"""
    primary, secondary = [], []
    for bi, kind, fam in families(r, cls, nbase, with_kind=True):
        base = fam[0]
        for x in fam[1:]:
            primary += [(base, x), (x, base)]
        rest = fam[1:]
        if kind == "suffixes" and bi < 2:
            primary.extend(itertools.permutations(rest, 2))
            continue
        r.shuffle(rest)
        secondary.extend(itertools.permutations(rest[:5], 2))
    r.shuffle(secondary)
    return primary + secondary[: max(0, cap - len(primary))]


def rel(a, b):
    """'lt' / 'eq' / 'gt' when exactly one of a < b, a == b, a > b holds (both ways round), else None"""
    try:
        lt, eq, gt = bool(a < b), bool(a == b), bool(a > b)
        tl, qe, tg = bool(b > a), bool(b == a), bool(b < a)
    except Exception:  # noqa
        return None
    if (lt, eq, gt) != (tl, qe, tg) or sum((lt, eq, gt)) != 1:
        return None
    return "lt" if lt else "eq" if eq else "gt"


DEN = {"EQ": {"eq"}, "NE": {"lt", "gt"}, "LT": {"lt"}, "LE": {"lt", "eq"}, "GT": {"gt"}, "GE": {"gt", "eq"}}


def c11_known(s, cname=None):
    """s falls under a listed round-trip finding of C11 (for the class cname, when given); a listed finding about
    strings that are rejected excuses nothing here: the versions at hand were accepted"""
    for k in core.load_findings("C11"):
        rx = k.get("string_regex")
        if k.get("kind") == "finding" and k.get("key") == "roundtrip" and rx and re.search(rx, s) and (cname is None or k.get("class") in (None, cname)):
            return True
    return False


def run(ctx, pid, r, viol, classes=None, nbase=None, cap=None):
    """evaluate property pid on dense pairs of every generated class; returns (evaluations, per-class counts)"""
    vc, vr, vs = vers.impl()
    nbase = nbase or (6 if ctx.tier == "quick" else 60)
    cap = cap or (250 if ctx.tier == "quick" else 4000)
    evals, per = 0, {}
    names = classes or sorted(n for n in gens.GEN_BY_CLASS if hasattr(vs, n))
    for name in names:
        cls = getattr(vs, name)
        rcls = vers.range_class_for(cls)
        ps = pairs(r, cls, nbase, cap)
        st = dict(pairs=len(ps), equal=0, checked=0, violating=0)
        nb = 0

        def bad(what, **kw):
            nonlocal nb
            nb += 1
            st["violating"] += 1
            if nb <= 2:
                viol(what, **kw)

        def C(op, v):
            return vc.VersionConstraint(comparator=vers.TEXT[op], version=v)

        for a, b in ps:
            if gens.order_excluded(name, a, b):
                continue
            inp = dict(version_class=name, a=a.string, b=b.string)
            x = rel(a, b)
            if x is None:
                if name == "MavenVersion":
                    continue        # its order is the listed finding of C01/C12; the pattern streams cover maven
                bad(f"{name}: {a.string!r} and {b.string!r} are not related by exactly one of <, ==, > (both ways round), so ranges over them have no meaning", inputs=inp)
                continue
            if name == "MavenVersion" and x == "eq" and a.value._canonical(a.value._parsed) != b.value._canonical(b.value._parsed):
                # the listed finding of C12 (maven == is not an equivalence where a sub-list with an empty first item faces a
                # missing item): equal versions with different hashes; whatever is built on hashing (duplicate detection in
                # validate, sets) inherits it, and it is reported once, by C12
                st["known_c12_finding"] = st.get("known_c12_finding", 0) + 1
                continue
            st["checked"] += 1
            st["equal"] += x == "eq"
            evals += 1
            try:
                if pid in ("C04", "C09"):
                    for op in vers.OPS:
                        c = C(op, b)
                        want = x in DEN[op]
                        got1, got2 = a in c, a in rcls(constraints=[c])
                        if pid == "C04" and (got1 != want or got2 != want):
                            bad(f"{name}: {a.string!r} in {c} -> constraint says {got1}, range says {got2}; {a.string!r} is {x} {b.string!r}, so it must be {want}", inputs=dict(inp, comparator=op))
                            break
                        if pid == "C09":
                            ic = c.invert()
                            irng = rcls(constraints=[c]).invert()
                            if (a in ic) == got1 or (a in irng) == got2 or not (ic.invert() == c):
                                bad(f"{name}: {a.string!r} in {c} is {got1} and in its inverse {ic} is {a in ic} (range: {got2} / {a in irng})", inputs=dict(inp, comparator=op))
                                break
                    if pid == "C04" and x != "eq":
                        lo, hi = (a, b) if x == "lt" else (b, a)
                        rng = rcls(constraints=[C("GE", lo), C("LT", hi)])
                        if not (lo in rng) or (hi in rng):
                            bad(f"{name}: {rng}: lower end in -> {lo in rng}, upper end in -> {hi in rng}", inputs=inp)
                elif pid == "C07":
                    if x == "eq" and a.string != b.string:
                        for o1, o2 in (("EQ", "EQ"), ("GE", "LT"), ("NE", "NE"), ("EQ", "GT")):
                            res = vers.res_bool(lambda: vc.VersionConstraint.validate([C(o1, a), C(o2, b)]))
                            if not res.startswith("ERR EValue"):
                                bad(f"{name}: validate([{C(o1, a)}, {C(o2, b)}]) -> {res}; the two versions are equal, the same version is constrained twice", inputs=dict(inp, comparators=[o1, o2]))
                                break
                    elif x != "eq":
                        lo, hi = (a, b) if x == "lt" else (b, a)
                        res = vers.res_bool(lambda: vc.VersionConstraint.validate(list(rcls(constraints=[C("GE", lo), C("LT", hi)]).constraints)))
                        if res != "OK true":
                            bad(f"{name}: validate of >={lo.string}|<{hi.string} -> {res}", inputs=inp)
                elif pid == "C08":
                    if x == "eq":
                        continue
                    for o1, o2 in (("GE", "GE"), ("LT", "LE"), ("GE", "LT"), ("EQ", "GE"), ("NE", "LT")):
                        cs = list(rcls(constraints=[C(o1, a), C(o2, b)]).constraints)
                        out = list(vc.VersionConstraint.simplify(cs))
                        okv = vers.res_bool(lambda: vc.VersionConstraint.validate(list(out)))
                        valid_in = vers.res_bool(lambda: vc.VersionConstraint.validate(list(cs))) == "OK true"
                        same = (not valid_in) or all((p in rcls(constraints=cs)) == (p in rcls(constraints=out)) for p in (a, b))
                        sub = all(any(o is c0 for c0 in cs) or o in cs for o in out)
                        again = list(vc.VersionConstraint.simplify(list(out))) == out
                        if not same or not sub or not again or okv != "OK true":
                            bad(f"{name}: simplify({'|'.join(map(str, cs))}) = {'|'.join(map(str, out))}: validates {okv}, same membership {same}, sub-list {sub}, fixed point {again}", inputs=dict(inp, comparators=[o1, o2]))
                            break
                elif pid == "C10":
                    rng = rcls.from_versions([a.string])
                    if (b in rng) != (x == "eq") or not (a in rng):
                        bad(f"{name}: from_versions([{a.string!r}]) = {rng}: contains {b.string!r} -> {b in rng} ({a.string!r} is {x} {b.string!r}), contains {a.string!r} -> {a in rng}", inputs=inp)
                    elif not all(v in rcls.from_versions([a.string, b.string]) for v in (a, b)):
                        bad(f"{name}: from_versions([{a.string!r}, {b.string!r}]) = {rcls.from_versions([a.string, b.string])} does not contain both", inputs=inp)
                    elif x != "eq":
                        lo, hi = (a, b) if x == "lt" else (b, a)
                        n1 = rcls(constraints=[C("GE", lo)]).normalize([lo.string, hi.string])
                        n2 = rcls(constraints=[C("GE", lo)]).normalize([hi.string, lo.string])
                        okv = vers.res_bool(lambda: vc.VersionConstraint.validate(list(n1.constraints)))
                        if not (lo in n1 and hi in n1) or n1 != n2 or okv != "OK true":
                            bad(f"{name}: (>={lo.string}).normalize([{lo.string!r}, {hi.string!r}]) = {n1} (other order: {n2}): validates {okv}, members {lo in n1}, {hi in n1}", inputs=inp)
                        else:
                            # the same known versions under spellings the constructor accepts as equal (a leading v, blanks)
                            def respell(v):
                                for t in ("v" + v.string, " " + v.string + " ", "V" + v.string):
                                    try:
                                        w = cls(t)
                                        if w == v and not (w < v) and not (v < w):
                                            return t
                                    except Exception:  # noqa
                                        pass
                                return v.string
                            ks = [respell(lo), respell(hi)]
                            if ks != [lo.string, hi.string]:
                                n3 = rcls(constraints=[C("GE", lo)]).normalize(ks)
                                if not (lo in n3 and hi in n3) or n3 != n1:
                                    bad(f"{name}: (>={lo.string}).normalize({ks}) = {n3}, but with the plain spellings it is {n1}", inputs=dict(inp, known=ks))
                elif pid == "C05":
                    if x == "eq":
                        continue
                    lo, hi = (a, b) if x == "lt" else (b, a)
                    if not (text.version_text_ok(str(lo)) and text.version_text_ok(str(hi))):
                        continue
                    rng = rcls(constraints=[C("GE", lo), C("LT", hi)])
                    if getattr(rcls, "scheme", None) not in vr.RANGE_CLASS_BY_SCHEMES or vr.RANGE_CLASS_BY_SCHEMES[rcls.scheme] is not rcls:
                        continue
                    s = str(rng)
                    back = vers.res_bool(lambda: vr.VersionRange.from_string(s) == rng and str(vr.VersionRange.from_string(s)) == s)
                    if back != "OK true" and not (c11_known(lo.string, name) or c11_known(hi.string, name) or c11_known(str(lo), name) or c11_known(str(hi), name)):
                        bad(f"{name}: the range >={lo.string!r}|<{hi.string!r} prints as {s!r}, which does not read back as the same range ({back})", inputs=inp)
                elif pid == "C17":
                    if x == "eq":
                        continue
                    lo, hi = (a, b) if x == "lt" else (b, a)
                    if getattr(rcls, "scheme", None) not in vr.RANGE_CLASS_BY_SCHEMES or vr.RANGE_CLASS_BY_SCHEMES[rcls.scheme] is not rcls:
                        continue
                    if not all(text.version_text_ok(str(v)) for v in (lo, hi)) or any(c11_known(v.string, name) or c11_known(str(v), name) for v in (lo, hi)):
                        continue
                    rng = rcls(constraints=[C("GE", lo), C("LT", hi)])
                    before = [lo in rng, hi in rng]
                    steps = [("print+parse", lambda g: vr.VersionRange.from_string(str(g))),
                             ("parse(simplify, validate)", lambda g: vr.VersionRange.from_string(str(g), simplify=True, validate=True)),
                             ("invert twice", lambda g: g.invert().invert()),
                             ("rebuild from the reversed constraints", lambda g: type(g)(constraints=list(reversed(g.constraints))))]
                    cur, hist = rng, []
                    for label, f in steps:
                        cur = f(cur)
                        hist.append(label)
                        after = [lo in cur, hi in cur]
                        if after != before or not (cur == rng):
                            bad(f"{name}: {rng} after {hist} is {cur}; membership of {lo.string!r}, {hi.string!r}: {before} -> {after}", inputs=dict(inp, history=list(hist)))
                            break
                elif pid == "C13":
                    if x == "eq":
                        continue
                    r1, r2 = rcls(constraints=[C("EQ", a), C("NE", b)]), rcls(constraints=[C("NE", b), C("EQ", a)])
                    if str(r1) != str(r2) or r1 != r2 or hash(r1) != hash(r2):
                        bad(f"{name}: the same two constraints in two orders give {r1} and {r2}", inputs=inp)
            except Exception as ex:  # noqa
                bad(f"{name}: {pid} on ({a.string!r}, {b.string!r}) raised {type(ex).__name__}: {str(ex)[:120]}", inputs=inp)
        per[name] = st
    return evals, per
