"""Shared paths and small helpers for the /verif harness."""
import hashlib
import json
import os
import subprocess
import sys
import time

VERIF = os.path.dirname(os.path.dirname(os.path.abspath(__file__)))
REPO = os.environ.get("VERIF_REPO", "/repo")
REPO_SRC = os.path.join(REPO, "src")
PY = "/venv/bin/python"
COQ = os.path.join(VERIF, "coq")
BUILD = os.path.join(VERIF, "build")
EVID = os.path.join(VERIF, "evidence")
REPLAY = os.path.join(BUILD, "replay")
GUARD = "NEXB_UNIVERS_VERIF"


def impl_env():
    env = dict(os.environ)
    env["PYTHONPATH"] = REPO_SRC
    env["PYTHONHASHSEED"] = env.get("PYTHONHASHSEED", "0")
    env["PYTHONDONTWRITEBYTECODE"] = "1"
    env[GUARD] = "1"
    env["PIP_NO_INDEX"] = "1"
    return env


_IMPL_READY = False


def setup_impl_path():
    """Make `import univers` resolve to /repo's current working tree (once per process)."""
    global _IMPL_READY
    if _IMPL_READY:
        return
    if REPO_SRC in sys.path:
        sys.path.remove(REPO_SRC)
    sys.path.insert(0, REPO_SRC)
    for k in list(sys.modules):
        if k == "univers" or k.startswith("univers."):
            del sys.modules[k]
    import univers  # noqa

    if not os.path.abspath(univers.__file__).startswith(REPO_SRC):
        raise RuntimeError("univers does not resolve to %s but to %s" % (REPO_SRC, univers.__file__))
    _IMPL_READY = True


def sha(s):
    return hashlib.sha256(s.encode()).hexdigest()[:16]


def write_if_changed(path, text):
    try:
        with open(path) as f:
            if f.read() == text:
                return False
    except FileNotFoundError:
        pass
    os.makedirs(os.path.dirname(path), exist_ok=True)
    tmp = path + ".tmp%d" % os.getpid()
    with open(tmp, "w") as f:
        f.write(text)
    os.replace(tmp, path)
    return True


def run(cmd, timeout=1800, cwd=None, env=None, input=None):
    t = time.time()
    p = subprocess.run(
        cmd, cwd=cwd, env=env, input=input, capture_output=True, text=True, timeout=timeout
    )
    return p.returncode, p.stdout, p.stderr, time.time() - t


def jdump(path, obj):
    os.makedirs(os.path.dirname(path), exist_ok=True)
    with open(path, "w") as f:
        json.dump(obj, f, indent=1, sort_keys=True, default=str)
        f.write("\n")
