"""Shared machinery for the scheme-level properties (C01 C02 C03 C11 C12): input streams per
version class, observation of the implementation, and the correspondence with the scheme models
of coq/Schemes (for the classes that have one)."""
import itertools
import operator
import random

from harness import common, core, gens, text, vers

OPN = ["eq", "ne", "lt", "le", "gt", "ge"]
OPF = [operator.eq, operator.ne, operator.lt, operator.le, operator.gt, operator.ge]

SMALL_ALPHABET = {
    "DebianVersion": ["1", "0", "10", "a", "B", "~", ".", "+", "-", ":"],
    "RpmVersion": ["1", "0", "10", "a", "b", "~", "^", ".", "-", ":", "_"],
    "ArchLinuxVersion": ["1", "0", "10", "a", "b", ".", "-", ":", "_", "+"],
    "GentooVersion": ["1", "0", "10", "2", ".", "a", "_p", "_rc", "_alpha", "_beta", "_pre", "-r0", "-r1", "-r2"],
    "AlpineLinuxVersion": ["1", "0", "10", "2", ".", "a", "_p", "_rc", "_alpha", "_beta", "_pre", "-r0", "-r1", "-r2"],
    "SemverVersion": ["1", "0", "10", ".", "-", "+", "a", "rc", "v", "_"],
    "GolangVersion": ["1", "0", "10", ".", "-", "+", "a", "rc", "v", "_"],
    "ComposerVersion": ["1", "0", "10", ".", "-", "+", "a", "rc", "v", "_"],
    "NginxVersion": ["1", "0", "10", ".", "-", "+", "a", "2"],
    "PypiVersion": ["1", "0", "10", ".", "a", "b", "rc", "post", "dev", "+", "!", "-", "_", "v"],
    "MavenVersion": ["1", "0", "10", ".", "-", "a", "b", "m", "alpha", "sp", "ga", "final", "rc", "cr", "x"],
    "RubygemsVersion": ["1", "0", "10", ".", "-", "a", "b", "B"],
    "NugetVersion": ["1", "0", "10", ".", "-", "+", "a", "B", "v"],
    "ConanVersion": ["1", "0", "10", ".", "-", "+", "a", "b"],
    "LegacyOpensslVersion": ["0.9.8", "1.0.1", "1.1.0", "1.1.1", "a", "z", "za", "-beta1", "-alpha2", "-pre1", "1", ".0", "+"],
    "OpensslVersion": ["0.9.8", "1.0.1", "1.1.1", "3.0.0", "a", "z", "-beta1", "-alpha2", "1", ".0", "+"],
    "GenericVersion": ["1", "0", ".", "a", "<", ">", "=", "!", "*", "|", "v", " "],
    "Version": ["1", "0", ".", "a", "v", " "],
}

MALFORMED_CHARS = "0123456789.abzAvV-_+~^:!*<>=|/ \t"


def classes():
    vc, vr, vs = vers.impl()
    out = [c for c in vars(vs).values() if isinstance(c, type) and issubclass(c, vs.Version) and c.__module__ == vs.__name__]
    out.sort(key=lambda c: c.__name__)
    return out


def observe_ctor(cls, s):
    """(status, value): status 'OK' or the error enum"""
    try:
        return "OK", cls(s)
    except Exception as e:  # noqa
        return vers.err_name(e), None


def small_alphabet_strings(name, limit, r):
    toks = SMALL_ALPHABET.get(name, ["1", "0", ".", "a"])
    out, L = [], 1
    while True:
        layer = ["".join(p) for p in itertools.product(toks, repeat=L)]
        if len(out) + len(layer) > limit * 6:
            r.shuffle(layer)
            out.extend(layer[: max(0, limit * 6 - len(out))])
            break
        out.extend(layer)
        L += 1
        if L > 5:
            break
    return out


def streams(r, cls, tier):
    """dict stream name -> list of strings for version class cls"""
    name = cls.__name__
    n = 150 if tier == "quick" else 2500
    out = {}
    g = gens.GEN_BY_CLASS.get(name)
    if g:
        out["grammar"] = [g(r) for _ in range(n)]
        near = []
        # every word the class's own source knows, once, next to its base (adjacent entries get compared); first, so that
        # a check that truncates its pool keeps them
        for b, x in gens.mined_pairs(r, cls, 80 if tier == "quick" else 400):
            near += [b, x]
        for v in gens.near_pool(r, cls, n):
            near.append(v.string)
        out["near"] = near
        out["grammar"], out["near"] = out["grammar"], out["near"]
    out["small"] = small_alphabet_strings(name, 120 if tier == "quick" else 2500, r)
    mal = []
    base = out.get("grammar", ["1.0"])
    for _ in range(n):
        k = r.random()
        if k < 0.3:
            mal.append("".join(r.choice(MALFORMED_CHARS) for _ in range(r.randint(0, 8))))
        else:
            s = list(r.choice(base))
            for _ in range(r.randint(1, 2)):
                kind = r.randrange(5)
                if kind == 0 and s:
                    del s[r.randrange(len(s))]
                elif kind == 1 and s:
                    i = r.randrange(len(s))
                    s.insert(i, s[i])
                elif kind == 2 and len(s) > 1:
                    i = r.randrange(len(s) - 1)
                    s[i], s[i + 1] = s[i + 1], s[i]
                elif kind == 3:
                    s.insert(r.randrange(len(s) + 1), r.choice(MALFORMED_CHARS))
                else:
                    s = [" "] + s + [" "] if r.random() < 0.5 else ["v"] + s
            mal.append("".join(s))
    mal += ["", " ", "v", "V", ".", "-", ":", "\t"]
    out["malformed"] = mal
    return out


def modelled(ctx):
    """names of the version classes that have a scheme model in coq/Schemes"""
    return set(core.run_driver(ctx, ["schemes"])[0].split(","))


def pairs_from(r, values, npairs):
    """ordered pairs: all of them when few, else near neighbours (adjacent in generation order) plus random ones"""
    n = len(values)
    if n * n <= npairs:
        return [(a, b) for a in values for b in values]
    out = []
    for i in range(n):
        for j in range(max(0, i - 3), min(n, i + 4)):
            out.append((values[i], values[j]))
    while len(out) < npairs:
        out.append((r.choice(values), r.choice(values)))
    return out[:npairs]


def impl_pair(a, b):
    """six operators and hash agreement as the implementation answers them"""
    res = []
    for f in OPF:
        try:
            x = f(a, b)
            res.append("1" if x is True else "0" if x is False else "?")
        except Exception as e:  # noqa
            return "ERR " + vers.err_name(e)
    try:
        h = "1" if hash(a) == hash(b) else "0"
    except Exception as e:  # noqa
        h = "E"
    return "OK " + "".join(res) + " " + h


def correspondence(ctx, cls, strings, pairs):
    """model vs implementation for one modelled class: ctor/str/valid on strings, ops/hash on pairs.
    returns (evaluations, diffs)"""
    name = cls.__name__
    ascii_ok = [s for s in strings if all(ord(c) < 128 for c in s)]
    reqs, want = [], []
    for s in ascii_ok:
        st, v = observe_ctor(cls, s)
        reqs.append(f"vctor {name} {text.hx(s)}")
        want.append("OK " + text.hx(str(v)) if st == "OK" else "ERR " + st)
        try:
            iv = cls.is_valid(cls.normalize(s))
            w = "OK true" if iv is True else "OK false" if (iv is False or iv is None) else "OK " + ("true" if iv else "false")
        except Exception as e:  # noqa
            w = "ERR " + vers.err_name(e)
        reqs.append(f"vvalid {name} {text.hx(s)}")
        want.append(w)
    for a, b in pairs:
        reqs.append(f"vpair {name} {text.hx(a.string)} {text.hx(b.string)}")
        want.append(impl_pair(a, b))
    got = core.run_driver(ctx, reqs)
    diffs = []
    for q, g, w in zip(reqs, got, want):
        if q.startswith("vpair"):
            g2 = " ".join(g.split()[:3]) if g.startswith("OK") else g
            if g2 != w:
                diffs.append(dict(request=q, inputs=[text.unhx(x) for x in q.split()[2:]], model=g, impl=w))
            elif g.startswith("OK"):
                # the key order the theorems are about must be the order the operators answer
                bits = w.split()[1]
                sign = "lt" if bits[2] == "1" else "gt" if bits[4] == "1" else "eq" if bits[0] == "1" else "none"
                if g.split()[3] != sign:
                    diffs.append(dict(request=q, inputs=[text.unhx(x) for x in q.split()[2:]], what="key order differs from the operators", model=g, impl=w))
        elif g != w:
            diffs.append(dict(request=q, inputs=[text.unhx(x) for x in q.split()[2:]], model=g, impl=w))
    return len(reqs), diffs, dict(zip(reqs, got))
