"""Helpers for the text-level checks (C05, C13, C15, C16): hex transport, a generic scheme
registered at run time, conformance of the Python-string primitives of coq/Py/PyStr.v."""
import random

from harness import common, core, vers

PRINTABLE = "".join(chr(i) for i in range(32, 127))
WS = " \t\n\r\x0b\x0c\x1c\x1d\x1e\x1f"


def hx(s):
    return s.encode("latin-1").hex() if s else "-"


def unhx(h):
    return "" if h == "-" else bytes.fromhex(h).decode("latin-1")


def ensure_generic_scheme():
    """register vers:zzgen/ -> a range class over GenericVersion (harness-side, not in /repo)"""
    vc, vr, vs = vers.impl()
    if "zzgen" not in vr.RANGE_CLASS_BY_SCHEMES:
        cls = type("ZzGenVersionRange", (vr.VersionRange,), {"scheme": "zzgen", "version_class": vs.GenericVersion})
        vr.RANGE_CLASS_BY_SCHEMES["zzgen"] = cls
    return vr.RANGE_CLASS_BY_SCHEMES["zzgen"]


def gclist_text(constraints):
    """real constraints over GenericVersion -> driver text OP:hex(value)"""
    if not constraints:
        return "-"
    out = []
    for c in constraints:
        out.append("*" if c.comparator == "*" else f"{vers.NAME[c.comparator]}:{hx(c.version.value)}")
    return ",".join(out)


def pyprims_conformance(ctx, r, n=400):
    """Py/PyStr.v primitives against CPython on random ASCII (incl. control chars) strings"""
    alphabet = PRINTABLE + WS + "\x00\x01\x7f" + "||||::://**<>=!vV  "
    reqs, want = [], []
    for _ in range(n):
        s = "".join(r.choice(alphabet) for _ in range(r.randint(0, 14)))
        reqs.append("remove_spaces " + hx(s)); want.append(hx("".join(s.split())))
        reqs.append("lower " + hx(s)); want.append(hx(s.lower()))
        reqs.append("py_is_ascii " + hx(s)); want.append("true" if len(s) + 2 == len(ascii(s)) else "false")
        sep = r.choice("|,:/ ")
        reqs.append(f"split {hx(sep)} {hx(s)}"); want.append(",".join(hx(x) for x in s.split(sep)))
        a, f, b = s.partition(sep)
        reqs.append(f"partition {hx(sep)} {hx(s)}"); want.append(f"{hx(a)} {'true' if f else 'false'} {hx(b)}")
        cs = r.choice(["|", "vV", ">=", "<=", "!=", "<", ">", "=", ")(", ",", "+"])
        reqs.append(f"strip {hx(cs)} {hx(s)}"); want.append(hx(s.strip(cs)))
        reqs.append(f"lstrip {hx(cs)} {hx(s)}"); want.append(hx(s.lstrip(cs)))
    got = core.run_driver(ctx, reqs)
    bad = [(q, g, w) for q, g, w in zip(reqs, got, want) if g != w]
    return len(reqs), bad


def version_text_ok(t):
    """delimiter-free version text: what C05 quantifies over"""
    return bool(t) and t[0] not in "<>=!*" and all(33 <= ord(c) <= 126 and c not in "|\\'\"" for c in t)


def version_ok(v):
    """a version the text-level properties (C05, C13, C17) quantify over: delimiter-free text that constructs the same
    version again with the same text (the round trip itself is C11's business and is reported there)"""
    t = str(v)
    if not version_text_ok(t):
        return False
    try:
        w = type(v)(t)
        return w == v and str(w) == t
    except Exception:  # noqa
        return False


def random_range(r, scheme, n, ops=None, distinct=True):
    """a list of real constraints over scheme.lad (positions sampled), any comparators"""
    vc, vr, vs = vers.impl()
    ops = ops or vers.OPS
    if distinct:
        pos = r.sample(range(len(scheme.lad)), min(n, len(scheme.lad)))
    else:
        pos = [r.randrange(len(scheme.lad)) for _ in range(n)]
    return [vc.VersionConstraint(comparator=vers.TEXT[r.choice(ops)], version=scheme.lad[p]) for p in pos]
