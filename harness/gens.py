"""Generators of version strings per version class, from each ecosystem's documented
grammar, plus near-pair mutation and ladders (strictly increasing lists) used by
the vers-algebra correspondence.  Every choice comes from the random.Random given."""
import itertools

from harness import common

NUM_SMALL = ["0", "1", "2", "3", "9", "10", "11", "20", "100"]


def num(r, lead_zero=0.0):
    if r.random() < lead_zero:
        return "0" + r.choice(NUM_SMALL)
    return r.choice(NUM_SMALL) if r.random() < 0.85 else str(r.randrange(0, 100000))


def dotted(r, lo=1, hi=4, lead_zero=0.0):
    return ".".join(num(r, lead_zero) for _ in range(r.randint(lo, hi)))


def ident(r):
    return r.choice(["alpha", "beta", "rc", "a", "b", "x", "pre", "dev", "SNAPSHOT", "0", "1", "2", "10", "rc1", "alpha1", "beta2", "x-y", "A"])


def semver(r):
    s = ".".join(num(r) for _ in range(3))
    if r.random() < 0.15:
        s = ".".join(num(r) for _ in range(r.choice([1, 2])))  # coerced
    if r.random() < 0.4:
        s += "-" + ".".join(ident(r) for _ in range(r.randint(1, 3)))
    if r.random() < 0.2:
        s += "+" + ".".join(r.choice(["build", "1", "001", "sha.5114f85", "b2", "incompatible", "Build", "7", "007"]) for _ in range(r.randint(1, 2)))
    return s


def golang(r):
    return ("v" if r.random() < 0.6 else "") + semver(r)


def pypi(r):
    s = ""
    if r.random() < 0.15:
        s += num(r) + "!"
    s += dotted(r, 1, 4, lead_zero=0.05)
    if r.random() < 0.35:
        s += r.choice(["a", "b", "rc", "alpha", "beta", "c", "pre", ".a", "-rc", "_b"]) + r.choice(["", "0", "1", "2", "10"])
    if r.random() < 0.2:
        s += r.choice([".post", "-post", "post", ".r", "-"]) + r.choice(["0", "1", "2"])
    if r.random() < 0.2:
        s += r.choice([".dev", "dev", "-dev"]) + r.choice(["", "0", "1", "3"])
    if r.random() < 0.1:
        s += "+" + r.choice(["local", "1", "abc.1", "ubuntu-1", "001"])
    # PEP 440: "all ascii letters should be interpreted case insensitively"; a leading v is allowed
    k = r.random()
    if k < 0.12:
        s = s.upper()
    elif k < 0.2:
        s = "".join(c.upper() if r.random() < 0.5 else c for c in s)
    return s


def generic(r):
    return r.choice([dotted(r), semver(r), "abc", "1.0a", "r" + num(r), dotted(r) + "-" + ident(r)])


def deb(r):
    s = ""
    if r.random() < 0.25:
        s += r.choice(["0", "1", "2", "10"]) + ":"
    up = dotted(r, 1, 3, lead_zero=0.1)
    if r.random() < 0.4:
        up += r.choice(["~", "+", ".", "a", "b", "~rc1", "+dfsg", "~~", "A", "+b1", ".0", "a1", "-1"]) + r.choice(["", "1", "2", "a"])
    s += up
    if r.random() < 0.6:
        s += "-" + r.choice(["0", "1", "2", "1ubuntu1", "1~bpo1", "0.1", "10", "1+b1", "01", "a"])
    if ":" in s and r.random() < 0.05:
        # Debian policy: with an epoch, the upstream version may itself contain colons
        i = s.index(":") + 2
        s = s[:i] + ":" + s[i:]
    return s


def rpm(r):
    s = ""
    if r.random() < 0.25:
        s += r.choice(["0", "1", "2", "10", "00"]) + ":"
    v = dotted(r, 1, 3, lead_zero=0.1)
    if s and r.random() < 0.1:
        v = r.choice(["v", "V"]) + v          # a version that itself begins with a letter v
    if r.random() < 0.45:
        v += r.choice(["~", "^", ".", "a", "b", "~rc1", "^git1", "_", "A", "p1", ".a", "~~", "^^"]) + r.choice(["", "1", "2", "a"])
    s += v
    if r.random() < 0.6:
        s += "-" + r.choice(["0", "1", "2", "1.el7", "1.fc30", "0.1", "10", "1~a", "01", "a^1"])
    return s


def alpm(r):
    s = ""
    if r.random() < 0.2:
        s += r.choice(["0", "1", "2"]) + ":"
    v = dotted(r, 1, 3, lead_zero=0.1)
    if r.random() < 0.4:
        v += r.choice(["a", "b", "rc", ".a", "_1", "+1", "beta", "pre", "a1", ".rc1"]) + r.choice(["", "1", "2"])
    s += v
    if r.random() < 0.6:
        s += "-" + r.choice(["0", "1", "2", "10", "1.1", "01"])
    return s


def gentoo(r, alpine=False):
    first = num(r) if alpine else num(r, lead_zero=0.1)
    parts = [first] + [num(r, lead_zero=0.25) for _ in range(r.randint(0, 3))]
    s = ".".join(parts)
    if r.random() < 0.25:
        s += r.choice("abcz")
    for _ in range(r.choice([0, 0, 0, 1, 1, 2])):
        s += "_" + r.choice(["alpha", "beta", "pre", "rc", "p"]) + r.choice(["", "0", "1", "2", "10"])
    if r.random() < 0.35:
        s += "-r" + r.choice(["0", "1", "2", "10"])
    return s


def alpine(r):
    s = gentoo(r, alpine=True)
    return s


def maven(r):
    s = dotted(r, 1, 4)
    for _ in range(r.choice([0, 0, 1, 1, 2])):
        s += "-" + r.choice(["alpha", "beta", "milestone", "rc", "snapshot", "SNAPSHOT", "sp", "ga", "final", "cr", "a", "b", "m", "xyz", "RC"]) + r.choice(["", "1", "2", "-1"])
    if r.random() < 0.1:
        s += "-" + num(r)
    return s


def maven_doc(r):
    """Documented Maven grammar with dash-only qualifiers."""
    s = dotted(r, 1, 3)
    for _ in range(r.choice([0, 1, 1, 2])):
        s += "-" + r.choice(["alpha", "beta", "milestone", "rc", "snapshot", "sp", "xyz", "abc"]) + r.choice(["", "1", "2", "10"])
    return s


def gem(r):
    s = dotted(r, 1, 5)
    if r.random() < 0.35:
        s += r.choice([".", "-", "."]) + r.choice(["a", "b", "rc", "pre", "beta", "alpha", "rc1", "a1", "B"]) + r.choice(["", ".1", "2", ".0"])
    return s


def nuget(r):
    s = ".".join(num(r) for _ in range(r.choice([2, 3, 3, 3, 4])))
    if r.random() < 0.4:
        s += "-" + ".".join(r.choice(["alpha", "beta", "rc", "RC", "Beta", "1", "2", "10", "a", "preview"]) for _ in range(r.randint(1, 3)))
    if r.random() < 0.2:
        s += "+" + r.choice(["build", "1", "sha.1", "B"])
    return s


def conan(r):
    s = ".".join(r.choice(NUM_SMALL + ["a", "b", "x"]) if r.random() < 0.1 else num(r) for _ in range(r.randint(1, 4)))
    if r.random() < 0.3:
        s += "-" + r.choice(["alpha", "beta", "rc", "pre", "alpha.1", "rc.2", "1", "a"])
    if r.random() < 0.2:
        s += "+" + r.choice(["1", "2", "b", "build.1"])
    return s


def conan_num(r):
    s = ".".join(num(r) for _ in range(r.randint(1, 4)))
    if r.random() < 0.3:
        s += "-" + r.choice(["alpha", "beta", "rc", "pre"])
    if r.random() < 0.2:
        s += "+" + r.choice(["1", "2", "10"])
    return s


LEGACY_BASE = ["0.9.1", "0.9.2", "0.9.6", "0.9.7", "0.9.8", "1.0.0", "1.0.1", "1.0.2", "1.1.0", "1.1.1"]


def legacy_openssl(r):
    s = r.choice(LEGACY_BASE)
    k = r.random()
    if k < 0.5:
        s += r.choice("abcdefghijklmnopqrstuvwxyz")
        if r.random() < 0.2:
            s = s[:-1] + "z" + r.choice("abcdefgh")
    elif k < 0.7:
        s += r.choice(["-beta1", "-beta2", "-beta3", "-alpha1", "-pre1", "-pre2", "-dev", "-beta10"])
    return s


def openssl(r):
    if r.random() < 0.6:
        return legacy_openssl(r)
    s = "3." + num(r) + "." + num(r)
    if r.random() < 0.3:
        s += "-" + r.choice(["alpha1", "beta1", "beta2", "dev"])
    return s


GEN_BY_CLASS = {
    "SemverVersion": semver,
    "NginxVersion": lambda r: ".".join(num(r) for _ in range(3)),
    "GolangVersion": golang,
    "ComposerVersion": golang,
    "PypiVersion": pypi,
    "GenericVersion": generic,
    "Version": generic,
    "DebianVersion": deb,
    "RpmVersion": rpm,
    "ArchLinuxVersion": alpm,
    "GentooVersion": gentoo,
    "AlpineLinuxVersion": alpine,
    "MavenVersion": maven,
    "RubygemsVersion": gem,
    "NugetVersion": nuget,
    "ConanVersion": conan_num,
    "LegacyOpensslVersion": legacy_openssl,
    "OpensslVersion": openssl,
}


def valid_pool(r, cls, n, gen=None, tries=40):
    """n valid version objects of class cls (constructed through the public constructor)."""
    gen = gen or GEN_BY_CLASS[cls.__name__]
    out = []
    for _ in range(n * tries):
        s = gen(r)
        try:
            out.append(cls(s))
        except Exception:
            continue
        if len(out) >= n:
            break
    return out


def ladder(r, cls, length, pool_size=None):
    """A strictly increasing list of `length` versions of cls, as decided by the
    implementation's own < (verified pairwise), or None if the pool is too small."""
    import functools

    pool = valid_pool(r, cls, pool_size or max(4 * length, 40))

    def c(a, b):
        return -1 if a < b else (1 if b < a else 0)

    try:
        pool.sort(key=functools.cmp_to_key(c))
    except Exception:
        return None
    out = []
    for v in pool:
        if not out or (out[-1] < v and not (v < out[-1]) and out[-1] != v):
            out.append(v)
    if len(out) < length:
        return None
    idx = sorted(r.sample(range(len(out)), length))
    lad = [out[i] for i in idx]
    for i, j in itertools.combinations(range(length), 2):
        a, b = lad[i], lad[j]
        if not (a < b and b > a and not (b < a) and a != b and not (a == b) and a <= b and b >= a and not (a >= b) and not (b <= a)):
            return None
    return lad


# ---------------------------------------------------------------- near pairs
SUFFIX_DICT = {
    "SemverVersion": ["-alpha", "-beta", "-rc1", "-rc.1", "-RC1", "+7", "+007", "+9", "+10", "+r9", "+r10", "-9", "-10", "+build", "+Build", "+incompatible", "-0", "-1", ".0", "-alpha.1", "-alpha.beta", "-a.b"],
    "PypiVersion": [".0", "a1", "b2", "rc1", ".post1", ".dev1", "+local", "+LOCAL", "-1", ".post", "a", "0"],
    "DebianVersion": ["~", "~~", "+", "-0", "-1", "a", "~rc1", "+b1", ".0", "0", "-", ".", "-0ubuntu1"],
    "RpmVersion": ["~", "^", "~rc1", "^git1", "-1", "_", ".0", "a", "0", "~~", "^^", ".a"],
    "ArchLinuxVersion": ["-1", "-2", "a", ".a", "_1", ".0", "+", "rc1", ".rc1", "0"],
    "GentooVersion": ["_alpha", "_beta", "_pre", "_rc", "_p", "_alpha1", "_rc2", "_p0", "_p1", "-r0", "-r1", "-r3", "a", "b", ".0", "0", ".01", ".010"],
    "MavenVersion": ["-alpha", "-beta", "-rc", "-sp", "-ga", "-final", ".0", "-1", "-SNAPSHOT", "-a1", "-b", ".ga", "-cr1", "-x"],
    "RubygemsVersion": [".0", ".a", ".b1", "-1", ".rc1", ".pre", "a", ".0.0"],
    "NugetVersion": ["-alpha", "-Alpha", "-beta.1", "+b", "+B", ".0", ".1", "-rc"],
    "ConanVersion": ["-alpha", "-beta", "+1", "+2", ".0", ".1", "-rc.1"],
    "LegacyOpensslVersion": ["a", "b", "z", "za", "-beta1", "-beta2", "-beta10", "-alpha1", "-pre1"],
}
for _k in ("GolangVersion", "ComposerVersion", "NginxVersion"):
    SUFFIX_DICT[_k] = SUFFIX_DICT["SemverVersion"]
# composer stability flags (dev, alpha, beta, RC, stable and the patch-level tags p / pl / patch) and go's +incompatible
SUFFIX_DICT["ComposerVersion"] = SUFFIX_DICT["SemverVersion"] + ["-p1", "-pl2", "-patch1", "-dev", "-RC2", "-stable", "-p", "-patch"]
SUFFIX_DICT["GolangVersion"] = SUFFIX_DICT["SemverVersion"] + ["+incompatible", "-0.20200101000000-abcdef123456"]
SUFFIX_DICT["AlpineLinuxVersion"] = SUFFIX_DICT["GentooVersion"]
SUFFIX_DICT["OpensslVersion"] = SUFFIX_DICT["LegacyOpensslVersion"] + SUFFIX_DICT["SemverVersion"][:6]
SUFFIX_DICT["GenericVersion"] = [".0", "a", "-1"]



_MINED = {}


def _file_words(path):
    import ast
    import re

    words = set()
    try:
        tree = ast.parse(open(path).read())
    except Exception:
        return words
    doc = set()
    for node in ast.walk(tree):
        if isinstance(node, ast.Expr) and isinstance(node.value, ast.Constant):
            doc.add(id(node.value))
    for node in ast.walk(tree):
        if isinstance(node, ast.Constant) and isinstance(node.value, (str, bytes)) and id(node) not in doc:
            v = node.value if isinstance(node.value, str) else node.value.decode("latin1")
            if len(v) > 400:
                continue
            for w in re.findall(r"[A-Za-z]{1,9}", v):
                words.add(w)
                words.add(w.lower())
    return words


def mined_words():
    """alphabetic tokens of the string constants (regexes, tables) in /repo/src/univers/**/*.py, docstrings excluded:
    a fuzzing dictionary read from the live source, so that a word the code newly knows is generated too"""
    if "words" in _MINED:
        return _MINED["words"]
    import glob

    words = set()
    for path in sorted(glob.glob(common.REPO_SRC + "/univers/**/*.py", recursive=True)):
        words |= _file_words(path)
    _MINED["words"] = sorted(words)
    return _MINED["words"]


def class_words(cls):
    """the mined words of the modules that the class (and its bases in univers.versions) refers to"""
    key = "cw:" + cls.__name__
    if key in _MINED:
        return _MINED[key]
    import inspect
    import re
    import sys

    words = set()
    vmod = sys.modules.get("univers.versions")
    for k in cls.__mro__:
        if getattr(k, "__module__", "") != "univers.versions":
            continue
        try:
            src = inspect.getsource(k)
        except Exception:
            continue
        # the string constants of the class's own source (its docstrings excluded)
        try:
            import ast
            import textwrap

            tree = ast.parse(textwrap.dedent(src))
            doc = {id(n.value) for n in ast.walk(tree) if isinstance(n, ast.Expr) and isinstance(n.value, ast.Constant)}
            for n in ast.walk(tree):
                if isinstance(n, ast.Constant) and isinstance(n.value, str) and id(n) not in doc and len(n.value) <= 80:
                    for w in re.findall(r"[A-Za-z]{2,9}", n.value):
                        words.add(w)
                        words.add(w.lower())
        except Exception:
            pass
        for ident in set(re.findall(r"[A-Za-z_][A-Za-z_0-9]*", src)):
            obj = getattr(vmod, ident, None)
            if inspect.isclass(obj) and getattr(obj, "__module__", "") == "univers.versions" and obj not in cls.__mro__ \
                    and not issubclass(cls, obj) and ("cw:" + obj.__name__) not in _MINED and not _MINED.get("busy:" + obj.__name__):
                # a class this one wraps (OpensslVersion -> LegacyOpensslVersion, SemverVersion)
                _MINED["busy:" + cls.__name__] = True
                words |= set(class_words(obj))
                _MINED["busy:" + cls.__name__] = False
                continue
            if inspect.isclass(obj) and ("cw:" + getattr(obj, "__name__", "")) in _MINED:
                words |= set(_MINED["cw:" + obj.__name__])
                continue
            mod = obj if inspect.ismodule(obj) else sys.modules.get(getattr(obj, "__module__", None) or "")
            f = getattr(mod, "__file__", None) if mod else None
            if f and f.startswith(common.REPO_SRC + "/univers/") and not f.endswith("/versions.py"):
                words |= _file_words(f)
    _MINED[key] = sorted(words)
    return _MINED[key]


def mined_pairs(r, cls, cap):
    """(base, base+suffix) version texts, one accepted suffix per mined word and base; the words of the class's own
    source (and of the modules and classes it refers to) first"""
    import re

    if not mined_suffixes(cls):
        return []
    by_word = {}
    for base, x in _MINED["bybase:" + cls.__name__]:
        by_word.setdefault((base, re.sub(r"[^A-Za-z]", "", x)), []).append(x)
    ownset = set(w for w in class_words(cls) if len(w) > 1)
    own = [k for k in by_word if k[1] in ownset]
    rest = [k for k in by_word if k[1] not in ownset]
    r.shuffle(rest)
    out = []
    for base, w in own:
        # every accepted spelling of a word of the class's own source (the separator matters: "-fips" is not "~fips")
        for x in by_word[(base, w)]:
            if not x[-1:].isdigit() or r.random() < 0.25:
                out.append((base, base + x))
    for base, w in rest[: max(0, cap - len(own))]:
        out.append((base, base + r.choice(by_word[(base, w)])))
    return out[: cap * 3]


def mined_suffixes(cls):
    """suffixes sep+word[+digit] built from mined_words() that cls accepts after a plain base version
    (for each base text the class accepts: a class may have several grammars, e.g. openssl before and after 3.0)"""
    key = cls.__name__
    if key in _MINED:
        return _MINED[key]
    out, by_base = [], []
    bases = ["1.2.3", "1.2", "1", "3.0.1", "1.1.1"]
    okb = []
    for b in bases:
        try:
            cls(b)
            okb.append(b)
        except Exception:
            continue
    okb = okb[:1] + [b for b in okb[1:] if b in ("3.0.1", "1.1.1")][:1] if okb else []
    for base in okb:
        for w in mined_words():
            for sep in ("", ".", "-", "_", "+", "~"):
                for tail in ("", "1"):
                    sfx = sep + w + tail
                    try:
                        cls(base + sfx)
                    except BaseException:
                        continue
                    if base == okb[0]:
                        out.append(sfx)
                    by_base.append((base, sfx))
    _MINED["base:" + key] = okb[0] if okb else None
    _MINED["bybase:" + key] = by_base
    _MINED[key] = out
    return out


def neighbours(r, cls, s, k=3):
    """up to k valid single-edit neighbours of the version text s (number +-1, x10, leading zero,
    separator swapped, suffix added/removed/renamed, segment appended)"""
    import re

    out = []
    sfx = list(SUFFIX_DICT.get(cls.__name__, [".0"]))
    mined = mined_suffixes(cls)
    if mined:
        sfx += [mined[r.randrange(len(mined))] for _ in range(max(3, len(sfx) // 2))]
    for _ in range(k * 6):
        t = s
        kind = r.randrange(7)
        nums = list(re.finditer(r"\d+", t))
        if kind == 0 and nums:
            m = r.choice(nums)
            t = t[: m.start()] + str(int(m.group()) + r.choice([1, 1, 2, 3, 9])) + t[m.end():]
        elif kind == 1 and nums:
            m = r.choice(nums)
            t = t[: m.start()] + m.group() + "0" + t[m.end():]
        elif kind == 2 and nums:
            m = r.choice(nums)
            t = t[: m.start()] + "0" + m.group() + t[m.end():]
        elif kind == 3:
            t = t + r.choice(sfx)
        elif kind == 4:
            for x in sorted(sfx, key=len, reverse=True):
                if t.endswith(x) and len(t) > len(x):
                    t = t[: -len(x)] + (r.choice(sfx) if r.random() < 0.5 else "")
                    break
        elif kind == 5:
            seps = [i for i, c in enumerate(t) if c in ".-_+~"]
            if seps:
                i = r.choice(seps)
                t = t[:i] + r.choice(".-_+~") + t[i + 1:]
        else:
            runs = list(re.finditer(r"[A-Za-z]+", t))
            if runs:
                m = r.choice(runs)
                w = r.choice([str.upper, str.lower, str.capitalize, str.swapcase])(m.group())
                t = t[: m.start()] + w + t[m.end():]
            else:
                t = t + ".1"
        if t == s:
            continue
        try:
            out.append(cls(t))
        except Exception:
            continue
        if len(out) >= k:
            break
    return out


def near_pool(r, cls, n, gen=None):
    """a pool of valid versions where every base version comes with 1-3 near neighbours"""
    base = valid_pool(r, cls, max(2, n // 3), gen=gen)
    out = []
    for v in base:
        out.append(v)
        out.extend(neighbours(r, cls, v.string, k=r.randint(1, 3)))
        if len(out) >= n:
            break
    return out[:n]


def equal_variant_pairs(r, cls, pool, limit):
    """pairs (v, x) where x is a single edit away from some w that is == v but spelled differently:
    two edits apart, the first of which preserves equality"""
    out = []
    for v in pool:
        if len(out) >= limit:
            break
        for w in neighbours(r, cls, v.string, k=4):
            try:
                if not (w == v) or w.string == v.string:
                    continue
            except Exception:
                continue
            for x in neighbours(r, cls, w.string, k=3):
                out.append((v, x))
                out.append((x, v))
            out.append((v, w))
    return out[:limit]

# ---------------------------------------------------------------- digits of other scripts (str.isdigit / \d / int() accept them)
_SCRIPTS = (0x0660, 0xFF10, 0x0966)      # Arabic-Indic, fullwidth, Devanagari


def digit_script_variants(s):
    """spellings of s with some ASCII digits replaced by the same digit of another script; Python's int(), str.isdigit()
    and the regex class \\d read them as the same numbers, so a class that accepts them must treat them consistently"""
    pos = [i for i, c in enumerate(s) if "0" <= c <= "9"]
    if not pos:
        return []
    out = []
    for base in _SCRIPTS:
        tr = lambda c: chr(base + ord(c) - 48)
        out.append("".join(tr(c) if "0" <= c <= "9" else c for c in s))
        for i in (pos[0], pos[-1]):
            out.append(s[:i] + tr(s[i]) + s[i + 1:])
    return list(dict.fromkeys(out))


# ---------------------------------------------------------------- the two sub-domains C01 excludes from the order
def conan_mixed(x, y):
    """conan version texts x, y put a number and a non-numeric word in the same dotted position (of the main part,
    or of the pre-release / build parts that are versions themselves)"""
    def split(t):
        build = pre = None
        it = t.rsplit("+", 1)
        if len(it) == 2:
            t, build = it
        it = t.rsplit("-", 1)
        if len(it) == 2:
            t, pre = it
        return t.split("."), pre, build

    (ix, px, bx), (iy, py, by) = split(x), split(y)
    if any(p.isdigit() != q.isdigit() for p, q in zip(ix, iy)):
        return True
    if px is not None and py is not None and conan_mixed(px, py):
        return True
    if bx is not None and by is not None and conan_mixed(bx, by):
        return True
    return False


def order_excluded(name, a, b):
    """the two sub-domains the properties exclude from the order: alpm across has/has-no pkgrel, conan number-vs-word"""
    if name == "ArchLinuxVersion":
        def has_rel(v):
            s = v.value.split(":", 1)[-1]
            return "-" in s
        return has_rel(a) != has_rel(b)
    if name == "ConanVersion":
        return conan_mixed(a.value._value, b.value._value)
    return False
