"""Regenerates /verif/MANIFEST.json from the table below (keeps it schema-valid)."""
import json
import os
import subprocess
import sys

HERE = os.path.dirname(os.path.dirname(os.path.abspath(__file__)))

BASE_NOTE = ("Trusted: Coq 8.16.1 kernel incl. vm_compute (no native_compute); no axioms (Print Assumptions: closed under the global "
             "context, read on every run); translator harness/translator.py; extraction with ExtrOcamlBasic only + ocaml/driver.ml; the "
             "correspondence harness. Modelled rather than verified: the Python code itself (hand-written code-shaped Gallina), CPython "
             "built-ins, attrs, third-party version libraries. ")

CHECKS = {
    "C04": dict(
        text="Theorems for every version type with a total-preorder comparison and constraint lists of any length: the code-shaped model of "
             "contains_version() returns exactly the interval-set denotation written from the property text on every well-formed range, never "
             "raises there, and depends only on the comparison outcomes. The model is tied to /repo by a correspondence check that is exhaustive "
             "over all comparator patterns up to a length bound x all probe positions on several schemes, and the comparator semantics table is "
             "regenerated from the live COMPARATORS on every run. The same statement is also evaluated on one- and two-constraint ranges over dense families of versions of every class (same base: every number zero-padded, every suffix of the scheme's dictionary, component ladders, case variants, empty trailing parts, single edits, source-mined words; harness/dense.py), where only ==, < and > of the version class say what the answer must be.",
        ref="6 (C04), Appendix A/E.1", technique="Coq proof (induction over the constraint list) + exhaustive small-scope model/implementation correspondence",
        note="Assumes the scheme's comparison is a total preorder and its six operators agree with it (C01/C02 of the scheme)."),
    "C07": dict(
        text="Theorems for every version type with a total-preorder comparison and lists of any length, order and duplication: the code-shaped model of "
             "VersionConstraint.validate()+validate_comparators() returns True exactly on the lists whose version-ordered rearrangement satisfies the property's "
             "sentence (a Prop-level spec with Permutation), returns ValueError otherwise, and every accepted list, as sorted by validate, is answered by the "
             "containment scan without error (with C04's denotation). Correspondence: exhaustive over all 7^n sequences x all position assignments for n<=3 and all "
             "comparator sequences up to the tier bound on several schemes, including differently spelled equal versions, with membership probed on the very list "
             "object validate() sorted. The same statement is also evaluated on one- and two-constraint ranges over dense families of versions of every class (same base: every number zero-padded, every suffix of the scheme's dictionary, component ladders, case variants, empty trailing parts, single edits, source-mined words; harness/dense.py), where only ==, < and > of the version class say what the answer must be.",
        ref="6 (C07)", technique="Coq proof (sorting uniqueness + list induction) + exhaustive small-scope correspondence",
        note="Assumes C01/C02/C12 of the scheme (total preorder, consistent operators, equal versions hash alike); set() is modelled as de-duplication by ==."),
    "C08": dict(
        text="Theorem for every version type with a total preorder and every version-sorted list with pairwise distinct versions, of any length and comparator "
             "pattern: the code-shaped model of VersionConstraint.simplify() (deduplicate + the index walk of simplify_constraints + sorted(set())) returns a sub-list "
             "of its input with the same membership (the property's nearest-bound meaning, written independently and proved equal to C04's denotation on well-formed "
             "ranges), which validation accepts and which is a fixed point. Proved via an invariant of the walk (processed prefix irreducible, meaning preserved by each "
             "of the two rules, fuel bound 2n). The model mirrors the code after the fix: commit in /repo. Correspondence exhaustive over all comparator patterns "
             "up to the tier bound, with all four conclusions also evaluated directly on the implementation. The same statement is also evaluated on one- and two-constraint ranges over dense families of versions of every class (same base: every number zero-padded, every suffix of the scheme's dictionary, component ladders, case variants, empty trailing parts, single edits, source-mined words; harness/dense.py), where only ==, < and > of the version class say what the answer must be.",
        ref="6 (C08), Appendix E.2", technique="Coq proof (loop invariant + rule lemmas over a state-machine semantics) + exhaustive small-scope correspondence",
        note="Assumes C01/C02/C12 of the scheme. The original walk violated the property (DESIGN section 9 item 9); it was repaired by a fix: commit and the model follows the repaired code."),
    "C09": dict(
        text="Theorems for every version type with a total preorder: inverting a single constraint flips membership (case analysis over the inversion table "
             "transcribed from /repo by executing VersionConstraint.invert on every comparator); '*' has no inverse; for every non-empty well-formed non-vacuous "
             "range of any length the model of VersionRange.invert() returns a well-formed range whose denotation and containment answer are the complement; "
             "inverting twice returns the original list (no side condition). Correspondence exhaustive over comparator patterns up to the tier bound x all probes. The same statement is also evaluated on one- and two-constraint ranges over dense families of versions of every class (same base: every number zero-padded, every suffix of the scheme's dictionary, component ladders, case variants, empty trailing parts, single edits, source-mined words; harness/dense.py), where only ==, < and > of the version class say what the answer must be.",
        ref="6 (C09)", technique="Coq proof (characterisation of the interval denotation by cut positions) + exhaustive small-scope correspondence",
        note="Assumes C01/C02 of the scheme. The empty constraint list is not a vers range and is excluded (DESIGN section 9)."),
    "C10": dict(
        text="Proved in Coq for every version type with a total preorder, every well-formed range and every list of known versions of any length, order and duplication: "
             "the code-shaped model of normalize() returns the constraints of a flat expression whose alternatives are the maximal runs of contiguous members of the sorted "
             "known list (one exact version or one closed interval each; runs are separated by a non-member, hence strictly ascending); the result validates; it contains a "
             "known version exactly when the original did and never raises; it is empty when no known version is a member; it depends on the range only through membership of "
             "the known versions; two known lists with the same elements give ranges that contain the same versions; from_versions contains exactly the versions equal to a "
             "listed one. The model is tied to /repo by the correspondence of normalize() and all clauses are also evaluated on the implementation over every well-formed "
             "pattern up to the tier bound x every subset of the probe grid as universe (shuffled, duplicated, respelled). The same statement is also evaluated on one- and two-constraint ranges over dense families of versions of every class (same base: every number zero-padded, every suffix of the scheme's dictionary, component ladders, case variants, empty trailing parts, single edits, source-mined words; harness/dense.py), where only ==, < and > of the version class say what the answer must be.",
        ref="6 (C10)", technique="Coq proof (group structure of the runs over a sorted list, reduced to the interval-conversion theorems of C06 and to C04/C07) + exhaustive small-scope evaluation and model correspondence",
        note="Order/duplication independence is proved as equality of membership for all versions (the literal constraint texts may differ in the spelling of equal versions). Assumes C01/C02/C12 of the scheme."),
    "C14": dict(
        text="Finite theorems (vm_compute over the enumerated class tables, lifted by forallb_forall) re-checked on every run against tables "
             "regenerated from the live classes: every ordering operator between unrelated version classes ends in TypeError under CPython's "
             "rich-comparison dispatch, == is False and != True by identity fallback, and foreign versions are refused by both containment paths. "
             "The dispatch model is compared with the real operators on all ordered class pairs x 6 operators x sample values.",
        ref="6 (C14)", technique="Coq proof by exhaustive computation over translator-generated tables + exhaustive dispatch-matrix correspondence",
        note="Value-independence of the guards is proved for the model and sampled in the code; CPython's do_richcompare is modelled (Py/PyCmp.v)."),
}

CHECKS["C17"] = dict(
    text="Theorems for every version type with a total preorder and every well-formed star-free range: each presentation-level operation (rebuild from any "
         "rearrangement of the constraints = print+parse / permute+rebuild, simplify, validate, invert twice, parse with simplify/validate flags; each the code-shaped "
         "model of the public operation) is enabled and never raises; after any finite history the containment answer for every version equals the initial one; and "
         "once a simplification has happened the constraint list never changes again. By induction over the history from the one-step theorems of C04/C07/C08/C09. "
         "Correspondence: random walks over the operation alphabet on the real API with the full membership vector and canonical text observed after every step. The same statement is also evaluated on one- and two-constraint ranges over dense families of versions of every class (same base: every number zero-padded, every suffix of the scheme's dictionary, component ladders, case variants, empty trailing parts, single edits, source-mined words; harness/dense.py), where only ==, < and > of the version class say what the answer must be.",
    ref="6 (C17)", technique="Coq proof (induction over histories from one-step lemmas) + random-walk correspondence against the model's state",
    note="Assumes C01/C02/C12 of the scheme and that print+parse is a rebuild (C05/C11 of the scheme, text level). '*' has no inverse and is treated separately.")

CHECKS["C05"] = dict(
    text="Theorems over the code-shaped model of the vers text layer (VersionConstraint.split/from_string/__str__, VersionRange.from_string/__str__) for an abstract scheme: "
         "printing a constraint and splitting it back returns its comparator and version text (depends on the dict order of COMPARATORS and on lstrip's character-set semantics, "
         "both taken from the regenerated tables); a non-empty star-free range with pairwise inequivalent versions whose texts are delimiter-free and re-construct to themselves "
         "prints to a text that parses back to the very same constraint list (hence equal range, identical second print); '*' round-trips; the printed form is the version-ordered "
         "list with '=' implicit; and (finite, over the regenerated registry) every range class that prints a scheme is the registry's entry for that scheme and vice versa. "
         "Correspondence: print/parse/print, to_dict and registry on every registered scheme and range class, and model vs implementation on a generic scheme registered at run time. The same statement is also evaluated on one- and two-constraint ranges over dense families of versions of every class (same base: every number zero-padded, every suffix of the scheme's dictionary, component ladders, case variants, empty trailing parts, single edits, source-mined words; harness/dense.py), where only ==, < and > of the version class say what the answer must be.",
    ref="6 (C05)", technique="Coq proof (string-level lemmas over a model of the parser/printer; finite registry facts by computation) + per-scheme round-trip evaluation and model correspondence",
    note="Assumes C11 of the scheme (printed version text re-constructs to an equal version) and C01/C02. Ranges repeating a version and to_dict are covered by the correspondence only. CPython str methods are modelled (Py/PyStr.v) and conformance-tested on every run.")
CHECKS["C13"] = dict(
    text="Theorems: two constraint collections that differ only in order (every version occurring once) sort to the same list and print the same canonical text, for every version "
         "type with a total preorder - which is also the hash-seed statement, since set iteration under hash randomisation is an arbitrary permutation feeding that sort; "
         "from_string factors through remove_spaces, so whitespace inserted anywhere is insignificant; an explicit '=' splits like none; the letter case of 'vers:' and of the "
         "scheme is irrelevant. Stray pipes are covered by the correspondence. Checked on the implementation: shuffled rebuilds and decorated variants on every registered scheme, "
         "pools of near-equal versions given in two orders, the model of from_string vs the implementation on a generic scheme, CPython conformance of the string primitives, and "
         "the same workload run in fresh interpreters under several PYTHONHASHSEED values. The same statement is also evaluated on one- and two-constraint ranges over dense families of versions of every class (same base: every number zero-padded, every suffix of the scheme's dictionary, component ladders, case variants, empty trailing parts, single edits, source-mined words; harness/dense.py), where only ==, < and > of the version class say what the answer must be.",
    ref="6 (C13)", technique="Coq proof (sorted-permutation uniqueness; parser factorisation lemmas) + decorated-variant evaluation, model correspondence and multi-seed subprocess runs",
    note="Assumes C01/C02/C12 of the scheme. The hash seed is a process-level configuration: proved for the model (set = arbitrary permutation), exercised on CPython by subprocess runs.")

CHECKS["C01"] = dict(
    text="Per scheme, a code-shaped Coq model of the comparison (parsing of the version text, shortcuts, loops) and a refinement theorem: on the shape every accepted version "
         "has, the comparison the code computes equals a lexicographic order on an explicit key (padded token lists for deb, components/letter/suffix-chain/revision for "
         "ebuild and alpine, a five-field key for legacy openssl, the string order for generic), which is a total preorder; all five laws of the property and the "
         "order-independence of sorting are proved once for any total preorder. Schemes with a theorem: generic, legacy openssl, ebuild, alpine, deb, the semver family (semver, nginx, golang, composer), gem, rpm, alpm (within a pkgrel class), openssl, pypi and nuget (on every constructed version); conan has a theorem on plain releases (numeric items, no pre-release or build part); maven and the other conan versions are modelled and compared without an order theorem (maven's order is the listed finding; conan's is not transitive across number/word items, the sub-domain the property excludes). "
         "For every version class, modelled or not, the laws are also evaluated on the implementation over triples of near-equal versions (every ordered triple of sliding windows "
         "of the near-pair stream) and random triples, with the two excluded sub-domains filtered; modelled classes are additionally compared with their model (operators, key order, "
         "theorem domain).",
    ref="5, 6 (C01)", technique="Coq proof (refinement of the code-shaped comparator to a key order; TPO transfer) for the modelled schemes + law evaluation on triples for all classes",
    note="All 17 version classes are modelled; 15 have an order theorem. PARTIAL in breadth: maven (finding) and conan are covered by model correspondence and law evaluation only. Known finding: maven order is intransitive outside the documented grammar (known_findings.json).")
CHECKS["C02"] = dict(
    text="Theorems: any six operators derived from one comparison satisfy the agreement laws; the six vers comparators, through the comparator table transcribed from /repo, accept "
         "exactly what the operators say; and per modelled scheme (all 17 classes) the code-shaped model of the six Python operators (which methods the class "
         "really defines and how attrs/tuple comparison dispatch them) equals the operators of the scheme's key order. For every version class the laws and the single-comparator "
         "constraints are evaluated on the implementation over neighbour pairs, random pairs and pairs two edits apart whose first edit preserves equality.",
    ref="6 (C02)", technique="Coq proof (operator models vs the order they refine to) for the modelled schemes + exhaustive-by-stream law evaluation on pairs for all classes",
    note="PARTIAL in breadth as for C01. The model follows the code after the fix: commits that added the missing <=/>= and made debian equality numeric.")

CHECKS["C12"] = dict(
    text="Finite theorems re-proved on every run against tables regenerated from the live classes: every version class is hashable (its effective __hash__ is not None, found by "
         "walking the MRO) and frozen (attribute assignment raises, tabulated by execution); VersionConstraint, VersionRange and Version hash exactly the attrs fields that == "
         "compares and their effective __eq__/__hash__ are the attrs-generated ones. Per scheme with a model, == implies equality of the hashed key (every class but maven). "
         "On the implementation, for every version class: whenever two versions are == (neighbour, random and equal-variant pairs, and the same version written with the digits of another script) hash, set and dict must agree, also for "
         "constraints and ranges built on them; attribute assignment is attempted on every object kind; and state snapshots of all arguments are compared before and after a "
         "battery of public operations.",
    ref="6 (C12), 10", technique="Coq proof by computation over translator-generated class tables + scheme-level eq/hash theorems; runtime monitoring for the mutation clause",
    note="PARTIAL: 'no public operation changes its arguments' is about the CPython heap and cannot be a theorem of a functional model; it is monitored at run time (snapshots), named as such. "
         "Hash/eq theorems exist for every modelled class except maven (legacy openssl, semver family, gem, rpm, deb, alpm, ebuild/alpine, pypi, openssl, nuget, conan); for maven (finding) agreement is checked on the implementation and against its model. Known finding: maven == is not an equivalence where a sub-list with an empty first item faces a missing item.")

CHECKS["C11"] = dict(
    text="Per modelled scheme the constructor is the code's `normalize; is_valid; build_value`, with the validity check and the builder as two separate code-shaped models. Proved: "
         "the validity check says 'valid' exactly when construction succeeds and a failed construction is the invalid-version error (all 17 classes); "
         "the print/re-construct round trip for generic, ebuild, alpine, gem, alpm, the semver family, nuget, deb, rpm, legacy openssl, the openssl dispatch class (both halves), maven and conan (the structured printers through a lemma that str(n) is a digit string of value n; the rpm theorem has the complement of the listed finding as its hypothesis and the finding as a refuting example). For every version class the implementation is checked on the documented-"
         "grammar, near-pair, exhaustive small-alphabet, malformed and non-ASCII streams: validity vs constructor, error type, acceptance of grammar strings, round trip, whitespace "
         "and leading-v invariance; modelled classes are compared with their model string by string.",
    ref="6 (C11)", technique="Coq proof (two-path constructor models) for the modelled schemes + per-class stream evaluation and model correspondence",
    note="PARTIAL in breadth: the only class without a round-trip theorem is pypi (printer of the third-party library packaging); its round trip is checked on the implementation and against the model. Known findings: deb colon inside upstream; rpm 0:v1.0. Non-ASCII input is outside the models.")

CHECKS["C18"] = dict(
    text="Theorems over the code-shaped model of semantic_version's next_major/next_minor/next_patch and of the SemVer precedence extended with the build tie-break (the order the "
         "semver-family classes really use, proved a total preorder whose equivalence is ==): for every version, v < next_patch <= next_minor <= next_major, every successor is "
         "strictly greater, and the caret / tilde / pessimistic bounds (the version, and its next_major resp. next_minor) satisfy lower < upper with the version inside. "
         "The model is compared with the four semver-family classes; gem (bump, release, ~>) and conan (upper_bound, bump at every numeric index) helpers are evaluated on the implementation.",
    ref="6 (C18)", technique="Coq proof (case analysis in the key order of the modelled semver library) + helper evaluation on near-pair pools",
    note="PARTIAL in breadth: the conan helpers have no Coq model (the gem helpers are proved on canonical segment lists and tied by correspondence). semantic_version 2.8.5 is modelled (third party), tied by correspondence. The model follows the code after the fix: commits (successor class, gem ~> lower bound).")

CHECKS["C15"] = dict(
    text="Theorems over the code-shaped model of the advisory converters (Native/Advisory.v) with every comparator table transcribed from /repo on each run: a finite check per table "
         "(re-proved by computation: each spelling is first matched by an entry that strips all of it and carries its value - the fact that depends on dict order and on lstrip's "
         "character-set semantics, and that exposed the rpm '<>' and pypi '===' orderings) lifted by a general lemma to: for every version text that starts with a non-comparator "
         "character and any inserted whitespace, the splitter returns the stated comparator and the version text; the GitHub converter maps a comma-separated list of clauses to exactly "
         "the stated constraints. On the implementation, generated expressions of the GitHub, three Snyk and GitLab notations for every scheme they accept (all spellings, spacing, "
         "list/string input, '||', brackets, detached comparators) must equal the range of the stated pairs and the range parsed from the equivalent vers text; the models of all "
         "converters are compared with the implementation on a generic scheme, malformed expressions included.",
    ref="6 (C15)", technique="Coq proof (finite table facts by computation, lifted to all version texts by a splitter lemma) + generated-expression evaluation and model correspondence",
    note="Whole-expression theorems exist for GitHub, for Snyk items of comma-separated clauses and for GitLab expressions of glued clauses without '||' (gitlab_range_rendered); the Snyk bracket form, GitLab detached comparators and '||' are modelled and checked by correspondence and direct evaluation (the clause-level splitter theorem covers their tables). Assumes C11 of the scheme.")

CHECKS["C16"] = dict(
    text="Theorems: the model of the vers-text parser (remove_spaces, split, constraint parsing, validation, sort, VersionRange construction) is total and every error value it "
         "returns is one of the declared kinds; the simplification walk returns within its fuel bound 2n on every list; each modelled version constructor (generic, legacy openssl, "
         "ebuild, alpine, deb, semver family and the later ones) returns a value or the invalid-version error on every string; the modelled native parsers (maven/nuget bracket notation, deb/rpm relationship strings, nginx) return a value, a ValueError or the constructor's error, and the loop of the bracket parser never exhausts its fuel. These are structural-recursion / explicit-fuel models, so termination "
         "is part of Coq's acceptance. On the implementation every public parsing entry point (all version classes, vers text, all native and advisory parsers) is run on grammar, "
         "near-pair, small-alphabet, malformed, non-ASCII and long repetitive inputs and every outcome is classified value / declared error / internal error; model error kinds are "
         "compared with the implementation's; running time on eight repetitive families is measured in forked children with a hard limit and a growth-exponent fit.",
    ref="6 (C16)", technique="Coq proof (totality of fuelled / structural models with declared error values) + outcome classification and timing measurement of every parsing entry point",
    note="PARTIAL: 'running time polynomial in the input length' of the CPython implementation (regex engine, recursion limit) cannot be exhibited by a Gallina model; it is measured "
         "(growth exponent, hard timeout), named as a measurement. Native parsers are classified on the implementation only. Known findings: maven RecursionError on deeply nested text.")

CHECKS["C03"] = dict(
    text="Reference procedures written in Gallina from the published text or source of each ecosystem (coq/Ref: Debian Policy 5.6.12, rpm's rpmvercmp.c, PMS Algorithms 3.1-3.7, SemVer 2.0 "
         "section 11 as an inductive relation, the OPENSSL_VERSION_NUMBER order, pacman's version.c, Gem::Version, NuGet VersionComparer, Conan's documented rules, Maven ComparableVersion, PEP 440) and, "
         "for deb, rpm, ebuild/alpine, the semver family, legacy openssl, gem, maven and nuget, theorems that the code-shaped model of the univers code computes the reference on every input of the stated "
         "domain (deb: all strings of the characters the validity check admits, through a finite check that the transcribed characters_order table is order-isomorphic to the policy's modified "
         "ASCII; rpm: all strings, by simulation of the two loops; gentoo: all accepted texts, with a finite check of the suffix table; semver: all versions; legacy openssl: unbounded numbers, "
         "finite patch grammar). The models are tied to /repo by the scheme correspondence; every reference, including those without such a theorem (alpm, conan, pypi), is run against the implementation on generated pairs (documentation shapes, grammar, near pairs with source-mined words, small alphabets).",
    ref="6 (C03)", technique="Coq proof (refinement of a code-shaped model to a reference procedure: simulation, order-isomorphism of tables, finite grammar sweeps) + reference/implementation correspondence",
    note="PARTIAL in breadth: no theorem for alpm (finding), conan and pypi (the third-party `packaging`; its model is the PEP 440 reference): their references are compared with the implementation on "
         "generated pairs only; the nuget theorem is at the level of parsed values (the two parsers are compared by correspondence). Known finding: alpm follows msys2's vercmp, which differs from pacman where separator runs do not line up. "
         "Three defects found by this check were repaired by fix: commits (gentoo first component, openssl -pre, maven nested empty lists).")

CHECKS["C06"] = dict(
    text="Theorem for every version type with a total preorder and native expressions with any number of alternatives: for the flat fragment of the property (ascending, disjoint alternatives that are "
         "one exact version or one interval with inclusive, exclusive or open ends and exclusions inside), the constraints every from_native emits (to_constraints) denote, in C04's interval-set "
         "meaning, exactly the versions some alternative accepts (native_conversion_exact: one-alternative lemma, a union lemma for constraint lists placed one after the other, induction over the "
         "alternatives). Shorthand theorems on the semver model for all release versions: npm caret (left-most non-zero element), tilde and M.m.x (same minor), M.x (same major), nginx 'version+' "
         "(stable branch bounded by the next minor, mainline unbounded), hyphen ranges. Parsers included, for four notations: code-shaped models of maven.Restriction / maven.VersionRange / "
         "MavenVersionRange.from_native (maven and nuget bracket notation), of the deb and rpm relationship strings (split_req on the class tables regenerated from /repo), of the nginx notation and of the "
         "openssl version list, each with the theorem that the TEXT rendered from a well-formed expression is read as exactly the constraints of its alternatives (already sorted and well-formed for the "
         "bracket notation), so that with native_conversion_exact the parsed text contains exactly the versions the expression matches. On the implementation, for maven, nuget, npm, conan, gem, pypi, deb, rpm, nginx and openssl: random fragment "
         "expressions over a ladder of 64 release versions rendered with spelling variants; the result must validate, every ladder version is probed against the extracted native rule, and the emitted "
         "constraints are compared with the conversion model of the theorem; shorthands (^, ~, x, ~>, +) are probed around every bound against the extracted rules (corner shapes with a zero in each position first).",
    ref="6 (C06)", technique="Coq proof (interval-set union lemma + induction over alternatives; arithmetic on release triples by lia) + conversion-model correspondence and exhaustive ladder probing",
    note="Also proved: the converted range is well-formed (native_conversion_wf) and the containment code on it answers the native rule without raising (with C04). The four parser models are compared with "
         "from_native / from_natives on well-formed, decorated and malformed texts (constraints as a multiset, or the error kind). PARTIAL: the parsers of npm, conan, gem and pypi (the last through the "
         "third-party packaging) are not modelled (the emitted constraints are compared with the conversion model instead); conan and gem shorthands are evaluated against the rules on numeric triples without a theorem on their own version models. Assumes C01/C02 of the scheme. "
         "Known findings: deprecated Debian '<' '>' read as strict; bare Maven/NuGet version gives '=None'; alternatives meeting at one version give an ill-formed range.")

PENDING = {}


def main():
    props = [json.loads(l)["id"] for l in open(os.path.join(HERE, "properties.jsonl"))]
    checks = []
    for pid in props:
        if pid not in CHECKS:
            continue
        c = CHECKS[pid]
        checks.append(dict(
            property_id=pid,
            quick_cmd=f"./check {pid} --tier quick",
            thorough_cmd=f"./check {pid} --tier thorough",
            evidence_file=f"/verif/evidence/{pid}.json",
            replay_cmd_template="./check %s --replay {path}" % pid,
            engine="coq-model-correspondence",
            level_claimed=dict(category="proof", text=c["text"], design_ref="DESIGN.md section " + c["ref"]),
            level_note=BASE_NOTE + c["note"],
            technique=c["technique"],
        ))
    na = [dict(property_id=p, reason=PENDING.get(p, "check not built yet in this round (planned: DESIGN.md section 6); no claim is made"))
          for p in props if p not in CHECKS]
    src_commits = subprocess.run(["git", "-C", "/repo", "log", "--format=%h %s", "799ba38..HEAD"], capture_output=True, text=True).stdout.strip().split("\n")
    m = dict(
        version=1,
        setup_cmd="./setup",
        hooks=dict(guard="NEXB_UNIVERS_VERIF", enable="checks import /repo/src directly with NEXB_UNIVERS_VERIF=1 in the environment; no hook code exists in /repo (observation is through public APIs only)",
                   baseline_off_cmd="cd /repo && /venv/bin/python -m pytest -q -p no:cacheprovider",
                   source_commits=[c for c in src_commits if c], add_only=True),
        engines=[dict(name="coq-model-correspondence", path="/verif/check",
                      serves_properties=[c["property_id"] for c in checks],
                      kind_free_text="Coq 8.16 theorems about code-shaped Gallina models (coq/), a translator regenerating coq/Gen/Tables.v from /repo on every run, and a correspondence check running the extracted OCaml model against the Python implementation")],
        checks=checks,
        notes="See DESIGN.md. known_findings.json lists genuine defects that are recorded rather than repaired; fix: commits in /repo are listed in hooks.source_commits (they are unguarded repairs, not hooks).",
        not_applicable=na,
    )
    with open(os.path.join(HERE, "MANIFEST.json"), "w") as f:
        json.dump(m, f, indent=1)
        f.write("\n")
    try:
        import jsonschema
        jsonschema.validate(m, json.load(open("/root/.vp/MANIFEST.schema.json")))
        print("MANIFEST.json valid;", len(checks), "checks,", len(na), "not claimed")
    except ImportError:
        print("jsonschema not available here; wrote MANIFEST.json")


if __name__ == "__main__":
    main()
