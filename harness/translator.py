"""(T1) Translator: regenerate coq/Gen/Tables.v from the live objects of /repo.

Two sources, both read from the *current* working tree on every run:
  * introspection of live objects (dict order, class hierarchy, which function
    object implements each dunder method, attrs flags, registries, tables);
  * tabulation of finite functions by execution (comparator semantics on the
    three comparison outcomes, VersionConstraint.invert on all comparators,
    the direct result of every rich-comparison method on every class pair, the
    isinstance guards of the two containment paths, ...).

Fail-closed: anything unexpected raises TranslatorError and the calling check
reports a violation (the tie between model and code is broken).
"""
import operator
import sys

from harness import common


class TranslatorError(Exception):
    pass


COP_NAME = {">=": "GE", "<=": "LE", "!=": "NE", "<": "LT", ">": "GT", "=": "EQ"}
OPS = ["eq", "ne", "lt", "le", "gt", "ge"]
REFLECT = {"eq": "eq", "ne": "ne", "lt": "gt", "le": "ge", "gt": "lt", "ge": "le"}

# candidate texts used to find valid sample values for each version class
SAMPLE_CANDIDATES = [
    "1.2.3",
    "2.0.0-rc1",
    "1.0.1f",
    "1.1.1",
    "3.0.1",
    "1.2-1",
    "1:2.0-3",
    "1.2_p1-r1",
    "1.2-r1",
    "2.0rc1",
    "1.2",
    "10",
    "0.9.8zg",
]


def coq_str(s):
    return '"' + s.replace('"', '""') + '"'


def coq_bool(b):
    return "true" if b else "false"


def coq_list(items):
    return "[" + "; ".join(items) + "]"


def ident(name):
    out = "".join(ch if ch.isalnum() else "_" for ch in name)
    if not out or out[0].isdigit():
        out = "x" + out
    return out


def method_origin(cls, name):
    """Classify which function object is in effect for cls.<name>."""
    for k in cls.__mro__:
        if name in k.__dict__:
            f = k.__dict__[name]
            if f is None:
                return "none", k.__name__
            code = getattr(f, "__code__", None)
            if code is None:
                if k is object:
                    return "object", "object"
                return "builtin", k.__name__
            fn = code.co_filename
            if fn.startswith(common.REPO_SRC):
                return "body", k.__name__
            if "attrs generated" in fn or fn.endswith("attr/_make.py") or "/attr/" in fn:
                return "attrs", k.__name__
            if fn.endswith("functools.py"):
                return "total_ordering", k.__name__
            return "other:" + fn, k.__name__
    return "missing", ""


def collect():
    """Return a dict of everything read from the live code (also used by the harness)."""
    common.setup_impl_path()
    import attr
    import univers.version_constraint as vc
    import univers.version_range as vr
    import univers.versions as vs

    T = {}
    # ------------------------------------------------------------------ COMPARATORS
    comps = list(vc.COMPARATORS.keys())
    if sorted(comps) != sorted(list(COP_NAME) + ["*"]):
        raise TranslatorError(f"COMPARATORS keys changed: {comps!r}")
    T["comparators_order"] = comps
    T["comparators_sorted"] = sorted(COP_NAME)  # Python str order of the six texts

    # a scripted Version: every rich comparison is decided by an integer key
    class StubVersion(vs.Version):
        @classmethod
        def is_valid(cls, s):
            return True

        @classmethod
        def build_value(cls, s):
            return int(s)

        def __eq__(self, o):
            return self.value == o.value

        def __ne__(self, o):
            return self.value != o.value

        def __lt__(self, o):
            return self.value < o.value

        def __le__(self, o):
            return self.value <= o.value

        def __gt__(self, o):
            return self.value > o.value

        def __ge__(self, o):
            return self.value >= o.value

        def __hash__(self):
            return hash(self.value)

    T["StubVersion"] = StubVersion
    mid = StubVersion("5")
    probes = {"Lt": StubVersion("4"), "Eq": StubVersion("5"), "Gt": StubVersion("6")}
    comp_table = {}
    for c in comps:
        if c == "*":
            con = vc.VersionConstraint(comparator="*", version_class=StubVersion)
        else:
            con = vc.VersionConstraint(comparator=c, version=mid)
        row = {}
        for out, p in probes.items():
            r = p in con
            if not isinstance(r, bool):
                raise TranslatorError(f"comparator {c!r} returned non-bool {r!r}")
            row[out] = r
        comp_table[c] = row
    T["comp_table"] = comp_table

    inv = {}
    for c in comps:
        if c == "*":
            con = vc.VersionConstraint(comparator="*", version_class=StubVersion)
            r = con.invert()
            if r is not None:
                raise TranslatorError("invert of star is not None")
            inv[c] = None
        else:
            con = vc.VersionConstraint(comparator=c, version=mid)
            r = con.invert()
            if not isinstance(r, vc.VersionConstraint) or r.comparator not in COP_NAME:
                raise TranslatorError(f"invert({c!r}) gave {r!r}")
            if r.version is not mid and r.version != mid:
                raise TranslatorError(f"invert({c!r}) changed the version")
            inv[c] = r.comparator
    T["invert_table"] = inv

    # ------------------------------------------------------------------ version classes
    vclasses = [
        v
        for k, v in vars(vs).items()
        if isinstance(v, type) and issubclass(v, vs.Version) and v.__module__ == vs.__name__
    ]
    vclasses.sort(key=lambda c: (len(c.__mro__), c.__name__))
    T["vclasses"] = vclasses
    samples = {}
    for c in vclasses:
        good = []
        for s in SAMPLE_CANDIDATES:
            try:
                good.append(c(s))
            except Exception:
                continue
            if len(good) >= 3:
                break
        if len(good) < 1:
            raise TranslatorError(f"no sample value for version class {c.__name__}")
        samples[c] = good
    T["samples"] = samples
    T["sample_texts"] = {c.__name__: [v.string for v in samples[c]] for c in vclasses}

    def direct(op, a, b):
        try:
            r = getattr(type(a), f"__{op}__")(a, b)
        except Exception as e:  # noqa
            return "MRaise"
        if r is NotImplemented:
            return "MNI"
        if isinstance(r, bool):
            return "MVal"
        return "MRaise"

    meth = {}
    for A in vclasses:
        for B in vclasses:
            for op in OPS:
                rs = set()
                for a in samples[A]:
                    for b in samples[B]:
                        if a is b:
                            continue
                        rs.add(direct(op, a, b))
                if not rs:
                    rs = {direct(op, samples[A][0], A(samples[A][0].string))}
                if A is not B and len(rs) > 1:
                    # value dependent answer across *different* classes: keep the worst
                    val = "MVal" if "MVal" in rs else sorted(rs)[0]
                elif len(rs) > 1:
                    # same class: some pairs may answer NotImplemented (openssl eras)
                    val = "MVal"
                else:
                    val = rs.pop()
                meth[(op, A.__name__, B.__name__)] = val
    T["meth"] = meth
    T["subclass"] = {
        (A.__name__, B.__name__): issubclass(A, B) for A in vclasses for B in vclasses
    }
    T["refl_differs"] = {
        (op, A.__name__, B.__name__): getattr(B, f"__{REFLECT[op]}__", None)
        is not getattr(A, f"__{REFLECT[op]}__", None)
        for op in OPS
        for A in vclasses
        for B in vclasses
    }
    T["origin"] = {
        (c.__name__, m): method_origin(c, f"__{m}__")
        for c in vclasses
        for m in OPS + ["hash", "str", "contains"]
    }
    T["hashable"] = {c.__name__: c.__hash__ is not None for c in vclasses}

    def attrs_flags(c):
        # frozen is visible as __setattr__ being the attrs frozen setter
        try:
            obj = samples[c][0] if c in samples else None
        except Exception:
            obj = None
        return obj

    frozen = {}
    for c in vclasses:
        o = samples[c][0]
        try:
            o.string = "x"
            frozen[c.__name__] = False
        except attr.exceptions.FrozenInstanceError:
            frozen[c.__name__] = True
        except Exception as e:
            raise TranslatorError(f"unexpected error assigning attribute on {c.__name__}: {e!r}")
        try:
            o.value = None
            frozen[c.__name__] = False
        except attr.exceptions.FrozenInstanceError:
            pass
    T["frozen"] = frozen

    # ------------------------------------------------------------------ scheme tables
    # LegacyOpensslVersion.parse keeps its table of base versions in a function-local tuple
    consts = vs.LegacyOpensslVersion.parse.__func__.__code__.co_consts
    bases = [c for c in consts if isinstance(c, tuple) and c and all(isinstance(x, str) for x in c)]
    if len(bases) != 1:
        raise TranslatorError(f"cannot find the all_legacy_base tuple in LegacyOpensslVersion.parse: {bases!r}")
    T["legacy_base"] = list(bases[0])
    # cross-check by execution: parse() accepts exactly the listed bases among x.y.z with small components
    for x in range(0, 4):
        for y in range(0, 10):
            for z in range(0, 12):
                t = f"{x}.{y}.{z}"
                ok = bool(vs.LegacyOpensslVersion.parse(t))
                if ok != (t in T["legacy_base"]):
                    raise TranslatorError(f"all_legacy_base does not explain parse({t!r})")
    import univers.debian as udeb
    import univers.gentoo as ugentoo
    co = dict(udeb.characters_order)
    if not all(isinstance(k, str) and len(k) <= 1 and isinstance(v, int) for k, v in co.items()):
        raise TranslatorError("debian.characters_order has an unexpected shape")
    T["deb_order"] = co
    sv = dict(ugentoo.suffix_value)
    if not all(isinstance(k, str) and isinstance(v, int) for k, v in sv.items()):
        raise TranslatorError("gentoo.suffix_value has an unexpected shape")
    T["gentoo_suffix"] = sv

    # ------------------------------------------------------------------ range classes / registry
    rclasses = [
        v
        for k, v in vars(vr).items()
        if isinstance(v, type) and issubclass(v, vr.VersionRange) and v.__module__ == vr.__name__
    ]
    rclasses.sort(key=lambda c: (len(c.__mro__), c.__name__))
    T["rclasses"] = rclasses
    T["registry"] = dict(vr.RANGE_CLASS_BY_SCHEMES)
    for k, v in T["registry"].items():
        if not (isinstance(k, str) and isinstance(v, type) and issubclass(v, vr.VersionRange)):
            raise TranslatorError(f"registry entry {k!r}: {v!r}")
    T["range_scheme"] = {c.__name__: c.scheme for c in rclasses}
    T["range_vclass"] = {
        c.__name__: (c.version_class.__name__ if c.version_class is not None else None)
        for c in rclasses
    }
    for c in rclasses:
        if c.version_class is not None and c.version_class not in vclasses:
            raise TranslatorError(f"{c.__name__}.version_class is not a univers.versions class")
    T["gitlab"] = dict(vr.PURL_TYPE_BY_GITLAB_SCHEME)

    # containment guards, tabulated by execution: is a B instance let through by
    # VersionRange.__contains__ of range class R / by VersionConstraint.__contains__
    guard_range = {}
    guard_constraint = {}

    def classify(f):
        try:
            r = f()
            return "GPass" if isinstance(r, bool) else "GOther"
        except TypeError:
            return "GTypeError"
        except ValueError:
            return "GValueError"
        except Exception:
            return "GOther"

    def merge(outs):
        outs = set(outs)
        if len(outs) == 1:
            return outs.pop()
        # a guard that depends on the comparator or on the shape of the range: keep the most permissive answer
        for k in ("GPass", "GOther", "GValueError", "GTypeError"):
            if k in outs:
                return k

    for R in rclasses:
        if R.version_class is None:
            continue
        own = samples[R.version_class]
        cons = []
        for c in comps:
            if c == "*":
                cons.append(vc.VersionConstraint(comparator="*", version_class=R.version_class))
            else:
                cons.append(vc.VersionConstraint(comparator=c, version=own[0]))
        rngs = [R(constraints=[c]) for c in cons]
        if len(own) > 1 and own[0] != own[1]:
            # multi-constraint shapes: only points, and interval
            rngs.append(R(constraints=[vc.VersionConstraint(comparator="=", version=own[0]), vc.VersionConstraint(comparator="=", version=own[1])]))
            rngs.append(R(constraints=[vc.VersionConstraint(comparator="!=", version=own[0]), vc.VersionConstraint(comparator="!=", version=own[1])]))
            lo, hi = (own[0], own[1]) if own[0] < own[1] else (own[1], own[0])
            rngs.append(R(constraints=[vc.VersionConstraint(comparator=">=", version=lo), vc.VersionConstraint(comparator="<", version=hi)]))
        for B in vclasses:
            b = samples[B][0]
            guard_range[(R.__name__, B.__name__)] = merge(classify(lambda: b in rng) for rng in rngs)
            guard_constraint[(R.__name__, B.__name__)] = merge(classify(lambda: b in con) for con in cons)
    T["guard_range"] = guard_range
    T["guard_constraint"] = guard_constraint

    # comparator tables of the native / advisory converters, in dict order
    def table(d):
        out = []
        for k, v in d.items():
            if not isinstance(k, str) or not (v is None or (isinstance(v, str) and v in COP_NAME)):
                raise TranslatorError(f"unexpected comparator table entry {k!r}: {v!r}")
            out.append((k, v))
        return out
    T["native_tables"] = {c.__name__: table(c.vers_by_native_comparators) for c in rclasses if "vers_by_native_comparators" in vars(c) or hasattr(c, "vers_by_native_comparators")}
    T["github_table"] = table(vr.vers_by_github_native_comparators)
    T["snyk_table"] = table(vr.vers_by_snyk_native_comparators)
    # split_req_bracket_notation tabulated by execution on the four brackets
    br = {}
    for ch, txt in (("(", "(1"), ("[", "[1"), (")", "1)"), ("]", "1]")):
        c, v = vr.split_req_bracket_notation(txt)
        if v != "1" or c not in COP_NAME:
            raise TranslatorError(f"split_req_bracket_notation({txt!r}) gave {(c, v)!r}")
        br[ch] = c
    T["bracket_table"] = br

    # attrs fields of the three frozen base classes: which take part in == and in hash()
    fields = {}
    for c in (vs.Version, vc.VersionConstraint, vr.VersionRange):
        rows = []
        for a in attr.fields(c):
            eq = bool(a.eq)
            h = eq if a.hash is None else bool(a.hash)
            rows.append((a.name, eq, h))
        fields[c.__name__] = rows
    T["attrs_fields"] = fields
    # effective dunder origin of the two container classes
    T["container_origin"] = {
        (c.__name__, m): method_origin(c, f"__{m}__")
        for c in (vc.VersionConstraint, vr.VersionRange)
        for m in ["eq", "hash", "lt"]
    }
    return T


def emit(T):
    L = []
    w = L.append
    w("(* GENERATED by harness/translator.py from the live /repo working tree. DO NOT EDIT. *)")
    w("From Coq Require Import List Bool String.")
    w("From UV.Base Require Import Cop.")
    w("Import ListNotations.")
    w("Open Scope string_scope.")
    w("")
    w("(* ---- COMPARATORS: dict order, texts, Python string order ---- *)")

    def c7(c):
        return "STAR" if c == "*" else f"(Op {COP_NAME[c]})"

    w("Definition comparators_order : list cop7 := " + coq_list([c7(c) for c in T["comparators_order"]]) + ".")
    w("Definition cop_text (o : cop) : string :=")
    w("  match o with " + " | ".join(f"{COP_NAME[c]} => {coq_str(c)}" for c in COP_NAME) + " end.")
    rank = {c: i for i, c in enumerate(T["comparators_sorted"])}
    w("(* rank of the comparator text in Python's str order *)")
    w("Definition cop_rank (o : cop) : nat :=")
    w("  match o with " + " | ".join(f"{COP_NAME[c]} => {rank[c]}" for c in COP_NAME) + " end.")
    w("")
    w("(* comp_operator tabulated by execution: (probe ?cmp constraint version) -> answer *)")
    w("Definition comp_table (o : cop) (c : comparison) : bool :=")
    w("  match o, c with")
    for c in COP_NAME:
        for out in ("Lt", "Eq", "Gt"):
            w(f"  | {COP_NAME[c]}, {out} => {coq_bool(T['comp_table'][c][out])}")
    w("  end.")
    w("Definition star_table (c : comparison) : bool :=")
    w("  match c with " + " | ".join(f"{o} => {coq_bool(T['comp_table']['*'][o])}" for o in ("Lt", "Eq", "Gt")) + " end.")
    w("")
    w("(* VersionConstraint.invert tabulated by execution (star -> None) *)")
    w("Definition invert_table (o : cop) : cop :=")
    w("  match o with " + " | ".join(f"{COP_NAME[c]} => {COP_NAME[T['invert_table'][c]]}" for c in COP_NAME) + " end.")
    w("Definition invert_star_is_none : bool := " + coq_bool(T["invert_table"]["*"] is None) + ".")
    w("")
    # ---------------------------------------------------------------- classes
    names = [c.__name__ for c in T["vclasses"]]
    w("(* ---- version classes of univers.versions ---- *)")
    w("Inductive vclass := " + " | ".join("V_" + ident(n) for n in names) + ".")
    w("Definition all_vclasses : list vclass := " + coq_list(["V_" + ident(n) for n in names]) + ".")
    w("Definition vclass_name (c : vclass) : string :=")
    w("  match c with " + " | ".join(f"V_{ident(n)} => {coq_str(n)}" for n in names) + " end.")
    w("(* issubclass a b *)")
    w("Definition subclass (a b : vclass) : bool :=")
    w("  match a, b with")
    for a in names:
        for b in names:
            if T["subclass"][(a, b)]:
                w(f"  | V_{ident(a)}, V_{ident(b)} => true")
    w("  | _, _ => false")
    w("  end.")
    w("Inductive pyop := OpEq | OpNe | OpLt | OpLe | OpGt | OpGe.")
    w("Definition all_pyops : list pyop := [OpEq; OpNe; OpLt; OpLe; OpGt; OpGe].")
    w("Inductive mres := MNI | MVal | MRaise.")
    opname = {"eq": "OpEq", "ne": "OpNe", "lt": "OpLt", "le": "OpLe", "gt": "OpGt", "ge": "OpGe"}
    w("(* result of calling type(a).__op__(a, b) directly, tabulated on sample values *)")
    for op in OPS:
        w(f"Definition meth_{op} (a b : vclass) : mres :=")
        w("  match a, b with")
        for a in names:
            # group: default per row = MNI
            for b in names:
                v = T["meth"][(op, a, b)]
                if v != "MNI":
                    w(f"  | V_{ident(a)}, V_{ident(b)} => {v}")
        w("  | _, _ => MNI")
        w("  end.")
    w("Definition meth (op : pyop) : vclass -> vclass -> mres :=")
    w("  match op with " + " | ".join(f"{opname[o]} => meth_{o}" for o in OPS) + " end.")
    w("(* does type(b) provide a different reflected method than type(a)? *)")
    w("Definition refl_differs (op : pyop) (a b : vclass) : bool :=")
    w("  match op, a, b with")
    for op in OPS:
        for a in names:
            for b in names:
                if T["refl_differs"][(op, a, b)] and T["subclass"][(b, a)] and a != b:
                    w(f"  | {opname[op]}, V_{ident(a)}, V_{ident(b)} => true")
    w("  | _, _, _ => false")
    w("  end.")
    w("Definition hashable (c : vclass) : bool :=")
    w("  match c with " + " | ".join(f"V_{ident(n)} => {coq_bool(T['hashable'][n])}" for n in names) + " end.")
    w("Definition frozen (c : vclass) : bool :=")
    w("  match c with " + " | ".join(f"V_{ident(n)} => {coq_bool(T['frozen'][n])}" for n in names) + " end.")
    w("")
    # ---------------------------------------------------------------- ranges
    rnames = [c.__name__ for c in T["rclasses"]]
    w("(* ---- range classes of univers.version_range and the scheme registry ---- *)")
    w("Inductive rclass := " + " | ".join("R_" + ident(n) for n in rnames) + ".")
    w("Definition all_rclasses : list rclass := " + coq_list(["R_" + ident(n) for n in rnames]) + ".")
    w("Definition rclass_name (c : rclass) : string :=")
    w("  match c with " + " | ".join(f"R_{ident(n)} => {coq_str(n)}" for n in rnames) + " end.")
    w("Definition range_scheme (c : rclass) : option string :=")
    w("  match c with")
    for n in rnames:
        s = T["range_scheme"][n]
        w(f"  | R_{ident(n)} => " + ("None" if s is None else f"Some {coq_str(s)}"))
    w("  end.")
    w("Definition range_vclass (c : rclass) : option vclass :=")
    w("  match c with")
    for n in rnames:
        s = T["range_vclass"][n]
        w(f"  | R_{ident(n)} => " + ("None" if s is None else f"Some V_{ident(s)}"))
    w("  end.")
    w("(* RANGE_CLASS_BY_SCHEMES in dict order *)")
    w("Definition registry : list (string * rclass) := " + coq_list(
        [f"({coq_str(k)}, R_{ident(v.__name__)})" for k, v in T["registry"].items()]) + ".")
    w("Definition gitlab_schemes : list (string * string) := " + coq_list(
        [f"({coq_str(k)}, {coq_str(v)})" for k, v in T["gitlab"].items()]) + ".")
    w("Inductive gres := GPass | GTypeError | GValueError | GOther.")
    for nm, tab in (("guard_range", T["guard_range"]), ("guard_constraint", T["guard_constraint"])):
        w(f"(* {nm}: outcome of `b in <range/constraint of R>` for a sample b of class B *)")
        w(f"Definition {nm} (r : rclass) (b : vclass) : gres :=")
        w("  match r, b with")
        default = "GTypeError" if nm == "guard_range" else "GValueError"
        for (r, b), v in tab.items():
            if v != default:
                w(f"  | R_{ident(r)}, V_{ident(b)} => {v}")
        w(f"  | _, _ => {default}")
        w("  end.")
    w("")
    w("(* attrs fields (name, compared by ==, hashed) of the frozen base classes; and which function is in effect for __eq__/__hash__ *)")
    for cname, rows in T["attrs_fields"].items():
        w(f"Definition fields_{ident(cname)} : list (string * bool * bool) := " + coq_list(
            [f"({coq_str(n)}, {coq_bool(e)}, {coq_bool(h)})" for n, e, h in rows]) + ".")
    for (cname, m), (kind, _owner) in T["container_origin"].items():
        w(f"Definition origin_{ident(cname)}_{m} : string := {coq_str(kind)}.")
    w("")
    w("(* ---- comparator tables of the native and advisory converters (dict order; None = unsupported) ---- *)")
    def emit_table(name, rows):
        w(f"Definition {name} : list (string * option cop) := " + coq_list(
            [f"({coq_str(k)}, {'None' if v is None else 'Some ' + COP_NAME[v]})" for k, v in rows]) + ".")
    emit_table("github_table", T["github_table"])
    emit_table("snyk_table", T["snyk_table"])
    for cname, rows in T["native_tables"].items():
        emit_table("native_table_" + ident(cname), rows)
    w("Definition native_tables : list (string * list (string * option cop)) := " + coq_list(
        [f"({coq_str(c)}, native_table_{ident(c)})" for c in T["native_tables"]]) + ".")
    w("Definition bracket_table : list (string * cop) := " + coq_list(
        [f"({coq_str(k)}, {COP_NAME[v]})" for k, v in T["bracket_table"].items()]) + ".")
    w("")
    w("(* ---- scheme tables ---- *)")
    w("Definition legacy_base : list string := " + coq_list([coq_str(x) for x in T["legacy_base"]]) + ".")
    w("(* debian.characters_order: character code (None = the empty string) -> rank *)")
    items = sorted(T["deb_order"].items(), key=lambda kv: kv[1])
    w("Definition deb_order_empty : option nat := " + ("Some %d" % T["deb_order"][""] if "" in T["deb_order"] else "None") + ".")
    w("Definition deb_order : list (nat * nat) := " + coq_list([f"({ord(k)}, {v})" for k, v in items if k != ""]) + ".")
    w("(* gentoo.suffix_value, as signed integers *)")
    w("Definition gentoo_suffix : list (string * (bool * nat)) := " + coq_list(
        [f"({coq_str(k)}, ({coq_bool(v < 0)}, {abs(v)}))" for k, v in T["gentoo_suffix"].items()]) + ".")
    w("")
    return "\n".join(L) + "\n"


def regenerate():
    T = collect()
    text = emit(T)
    path = common.COQ + "/Gen/Tables.v"
    changed = common.write_if_changed(path, text)
    return T, changed, common.sha(text)


if __name__ == "__main__":
    T, changed, h = regenerate()
    print("Tables.v", "changed" if changed else "unchanged", h)
